import Mathlib.Probability.Distributions.Exponential
import Mathlib.Probability.Distributions.Gaussian.Real
import Mathlib.Probability.ConditionalProbability
import Mathlib.Probability.CDF
import Mathlib.MeasureTheory.Measure.Prod
import Mathlib.MeasureTheory.Measure.Haar.OfBasis
import Mathlib.MeasureTheory.Group.Measure

/-
The laws of the two ziggurat TAIL samplers (idealised: exact real arithmetic, exactly uniform independent draws), in
Mathlib's measure theory.

* exponential (`exp.rs`, `zero_case`): `R - ln U` is a unit exponential conditioned on exceeding `R` (memorylessness);
* normal (`normal.rs`, `zero_case`, Marsaglia 1964): `x = ln(U1)/R`, `y = ln(U2)` until `-2 y >= x^2`, then `R - x`:
  the standard normal law conditioned on `[R, ∞)`.

Together with `Lemmas/ZigguratLaw.lean` (a uniform point of a uniformly chosen layer, kept if under the curve, has the
law of the density) this is the whole idealised algorithm; what is NOT covered is its floating-point execution.
-/
open MeasureTheory ProbabilityTheory Set Real
open scoped ENNReal NNReal

namespace Urandom.TailLaw

theorem expMeasure_ac (r : ℝ) : expMeasure r ≪ (volume : Measure ℝ) := by
  unfold expMeasure gammaMeasure
  exact withDensity_absolutelyContinuous _ _

/-- survival function of the exponential law -/
theorem expMeasure_Ioi {r : ℝ} (hr : 0 < r) {c : ℝ} (hc : 0 ≤ c) :
    expMeasure r (Ioi c) = ENNReal.ofReal (exp (-(r * c))) := by
  haveI := isProbabilityMeasure_expMeasure hr
  have h1 : expMeasure r (Iic c) = ENNReal.ofReal (1 - exp (-(r * c))) := by
    rw [← ProbabilityTheory.ofReal_cdf, cdf_expMeasure_eq hr, if_pos hc]
  have h2 : Ioi c = (Iic c)ᶜ := by ext x; simp
  rw [h2, prob_compl_eq_one_sub measurableSet_Iic, h1]
  have hle : exp (-(r * c)) ≤ 1 := by
    rw [exp_le_one_iff]; nlinarith
  rw [← ENNReal.ofReal_one, ← ENNReal.ofReal_sub _ (by linarith)]
  congr 1; ring

theorem expMeasure_Ici {r : ℝ} (hr : 0 < r) {c : ℝ} (hc : 0 ≤ c) :
    expMeasure r (Ici c) = ENNReal.ofReal (exp (-(r * c))) := by
  rw [← expMeasure_Ioi hr hc]
  apply measure_congr
  exact (expMeasure_ac r).ae_le Ioi_ae_eq_Ici.symm


/-- **the exponential tail sampler**: `R + Y` with `Y` exponential is an exponential variable conditioned on exceeding `R`
(memorylessness) -/
theorem exp_tail_law {R : ℝ} (hR : 0 ≤ R) :
    Measure.map (fun y => R + y) (expMeasure 1) = (expMeasure 1)[|Ioi R] := by
  have h1 : (0 : ℝ) < 1 := one_pos
  haveI := isProbabilityMeasure_expMeasure h1
  haveI : IsFiniteMeasure (Measure.map (fun y => R + y) (expMeasure 1)) := by
    constructor
    rw [Measure.map_apply (measurable_const_add R) MeasurableSet.univ]
    exact measure_lt_top _ _
  apply Measure.ext_of_Iic
  intro t
  rw [Measure.map_apply (measurable_const_add R) measurableSet_Iic, cond_apply measurableSet_Ioi]
  have hpre : (fun y => R + y) ⁻¹' Iic t = Iic (t - R) := by
    ext y; simp only [mem_preimage, mem_Iic]; constructor <;> intro h <;> linarith
  rw [hpre, expMeasure_Ioi h1 hR]
  have hIic : ∀ c : ℝ, expMeasure 1 (Iic c) = ENNReal.ofReal (if 0 ≤ c then 1 - exp (-(1 * c)) else 0) := by
    intro c
    rw [← ProbabilityTheory.ofReal_cdf, cdf_expMeasure_eq h1]
  rw [hIic]
  by_cases htR : t ≤ R
  · have e : Ioi R ∩ Iic t = ∅ := by
      ext y; simp only [mem_inter_iff, mem_Ioi, mem_Iic, mem_empty_iff_false, iff_false, not_and, not_le]; intro h; linarith
    rw [e, measure_empty, mul_zero]
    by_cases h0 : 0 ≤ t - R
    · have : t - R = 0 := by linarith
      rw [if_pos h0, this]; simp
    · rw [if_neg h0]; simp
  · have htR := not_le.mp htR
    have h0 : 0 ≤ t - R := by linarith
    rw [if_pos h0]
    have e : Ioi R ∩ Iic t = Iic t \ Iic R := by
      ext y; simp only [mem_inter_iff, mem_Ioi, mem_Iic, mem_sdiff, not_le]; tauto
    rw [e, measure_sdiff (Iic_subset_Iic.mpr htR.le) measurableSet_Iic.nullMeasurableSet (measure_ne_top _ _), hIic, hIic,
      if_pos (by linarith : (0 : ℝ) ≤ t), if_pos hR]
    have hle1 : exp (-(1 * R)) ≤ 1 := by rw [exp_le_one_iff]; linarith
    have hle2 : exp (-(1 * t)) ≤ exp (-(1 * R)) := by rw [exp_le_exp]; linarith
    rw [← ENNReal.ofReal_sub _ (by linarith), ← ENNReal.ofReal_inv_of_pos (exp_pos _), ← ENNReal.ofReal_mul (inv_nonneg.mpr (exp_pos _).le)]
    congr 1
    have : exp (-(1 * (t - R))) = exp (-(1 * t)) * (exp (-(1 * R)))⁻¹ := by
      rw [← exp_neg, ← exp_add]; congr 1; ring
    rw [this]
    field_simp
    ring


/-- **`-ln U` of a uniform `U` on `(0,1)` is a unit exponential** -/
theorem neg_log_uniform :
    Measure.map (fun u => -log u) ((volume : Measure ℝ).restrict (Ioo 0 1)) = expMeasure 1 := by
  have h1 : (0 : ℝ) < 1 := one_pos
  haveI := isProbabilityMeasure_expMeasure h1
  have hm : Measurable (fun u : ℝ => -log u) := measurable_log.neg
  haveI : IsFiniteMeasure (Measure.map (fun u => -log u) ((volume : Measure ℝ).restrict (Ioo 0 1))) := by
    constructor
    rw [Measure.map_apply hm MeasurableSet.univ]
    exact measure_lt_top _ _
  apply Measure.ext_of_Iic
  intro t
  rw [Measure.map_apply hm measurableSet_Iic, Measure.restrict_apply (hm measurableSet_Iic),
    ← ProbabilityTheory.ofReal_cdf, cdf_expMeasure_eq h1]
  by_cases ht : 0 ≤ t
  · rw [if_pos ht]
    have e : (fun u => -log u) ⁻¹' Iic t ∩ Ioo 0 1 = Ico (exp (-t)) 1 := by
      ext u
      simp only [mem_inter_iff, mem_preimage, mem_Iic, mem_Ioo, mem_Ico]
      constructor
      · rintro ⟨h, h0, h1⟩
        refine ⟨?_, h1⟩
        have : -t ≤ log u := by linarith
        calc exp (-t) ≤ exp (log u) := exp_le_exp.mpr this
          _ = u := exp_log h0
      · rintro ⟨h, h1⟩
        have h0 : 0 < u := lt_of_lt_of_le (exp_pos _) h
        refine ⟨?_, h0, h1⟩
        have : -t ≤ log u := by
          rw [← log_exp (-t)]
          exact log_le_log (exp_pos _) h
        linarith
    rw [e, Real.volume_Ico]
    congr 1
    ring_nf
  · rw [if_neg ht]
    have ht := not_le.mp ht
    have e : (fun u => -log u) ⁻¹' Iic t ∩ Ioo 0 1 = ∅ := by
      ext u
      simp only [mem_inter_iff, mem_preimage, mem_Iic, mem_Ioo, mem_empty_iff_false, iff_false, not_and]
      intro h h0 h1
      have : log u < 0 := log_neg h0 h1
      linarith
    rw [e, measure_empty, ENNReal.ofReal_zero]

/-- dividing a unit exponential by `r` gives an exponential of rate `r` -/
theorem exp_scale {r : ℝ} (hr : 0 < r) : Measure.map (fun y => y / r) (expMeasure 1) = expMeasure r := by
  have h1 : (0 : ℝ) < 1 := one_pos
  haveI := isProbabilityMeasure_expMeasure h1
  haveI := isProbabilityMeasure_expMeasure hr
  have hm : Measurable (fun y : ℝ => y / r) := measurable_id.div_const r
  haveI : IsFiniteMeasure (Measure.map (fun y => y / r) (expMeasure 1)) := by
    constructor
    rw [Measure.map_apply hm MeasurableSet.univ]
    exact measure_lt_top _ _
  apply Measure.ext_of_Iic
  intro t
  have e : (fun y => y / r) ⁻¹' Iic t = Iic (t * r) := by
    ext y; simp only [mem_preimage, mem_Iic]; exact div_le_iff₀ hr
  rw [Measure.map_apply hm measurableSet_Iic, e, ← ProbabilityTheory.ofReal_cdf, ← ProbabilityTheory.ofReal_cdf,
    cdf_expMeasure_eq h1, cdf_expMeasure_eq hr]
  congr 1
  by_cases ht : 0 ≤ t
  · rw [if_pos ht, if_pos (mul_nonneg ht hr.le)]; congr 2; ring
  · rw [if_neg ht, if_neg]; intro h; apply ht; exact nonneg_of_mul_nonneg_left h hr


/-! ### the normal tail (Marsaglia 1964) -/

/-- the acceptance region of the loop `while -2 y < x^2` (with `X = -x ≥ 0`, `Y = -y ≥ 0`): leave when `X^2 ≤ 2 Y` -/
def Acc : Set (ℝ × ℝ) := {p | p.1 ^ 2 ≤ 2 * p.2}

theorem measurableSet_Acc : MeasurableSet Acc :=
  measurableSet_le (measurable_fst.pow_const 2) (measurable_snd.const_mul 2)

/-- the unnormalised target: density `exp (-t^2/2)` on `[R, ∞)` -/
noncomputable def tailMeasure (R : ℝ) : Measure ℝ :=
  ((volume : Measure ℝ).restrict (Ici R)).withDensity (fun t => ENNReal.ofReal (exp (-(t ^ 2) / 2)))

theorem expMeasure_eq (r : ℝ) : expMeasure r = (volume : Measure ℝ).withDensity (exponentialPDF r) := rfl

theorem measurable_gauss : Measurable (fun t : ℝ => ENNReal.ofReal (exp (-(t ^ 2) / 2))) :=
  (((measurable_id.pow_const 2).neg.div_const 2).exp).ennreal_ofReal

theorem accept_measure {R : ℝ} (hR : 0 < R) (t : Set ℝ) (ht : MeasurableSet t) :
    ((expMeasure R).prod (expMeasure 1)) (Acc ∩ Prod.fst ⁻¹' t) =
      ENNReal.ofReal (R * exp (R ^ 2 / 2)) * ∫⁻ x in t ∩ Ici 0, ENNReal.ofReal (exp (-((x + R) ^ 2) / 2)) := by
  have h1 : (0 : ℝ) < 1 := one_pos
  haveI := isProbabilityMeasure_expMeasure h1
  haveI := isProbabilityMeasure_expMeasure hR
  have hB : MeasurableSet (Acc ∩ Prod.fst ⁻¹' t) := measurableSet_Acc.inter (measurable_fst ht)
  rw [Measure.prod_apply hB]
  have hsec : ∀ x, expMeasure 1 (Prod.mk x ⁻¹' (Acc ∩ Prod.fst ⁻¹' t)) = t.indicator (fun x => ENNReal.ofReal (exp (-(x ^ 2) / 2))) x := by
    intro x
    by_cases hx : x ∈ t
    · have e : Prod.mk x ⁻¹' (Acc ∩ Prod.fst ⁻¹' t) = Ici (x ^ 2 / 2) := by
        ext y
        simp only [Acc, mem_preimage, mem_inter_iff, mem_ofPred_eq, hx, and_true, mem_Ici]
        constructor <;> intro h <;> linarith
      rw [e, expMeasure_Ici h1 (by positivity), indicator_of_mem hx]
      congr 2; ring
    · have e : Prod.mk x ⁻¹' (Acc ∩ Prod.fst ⁻¹' t) = ∅ := by
        ext y
        simp only [mem_preimage, mem_inter_iff, hx, and_false, mem_empty_iff_false]
      rw [e, measure_empty, indicator_of_notMem hx]
  simp_rw [hsec]
  have hmp : Measurable (exponentialPDF R) := (measurable_exponentialPDFReal R).ennreal_ofReal
  rw [lintegral_indicator ht, expMeasure_eq, setLIntegral_withDensity_eq_setLIntegral_mul _ hmp measurable_gauss ht]
  rw [← lintegral_const_mul' _ _ ENNReal.ofReal_ne_top]
  have hset : t ∩ Ici 0 = Ici 0 ∩ t := inter_comm _ _
  rw [hset, ← Measure.restrict_restrict measurableSet_Ici, ← lintegral_indicator measurableSet_Ici]
  apply lintegral_congr
  intro x
  by_cases h0 : 0 ≤ x
  · rw [indicator_of_mem (show x ∈ Ici 0 from h0)]
    simp only [Pi.mul_apply]
    rw [exponentialPDF_of_nonneg h0, ← ENNReal.ofReal_mul (by positivity), ← ENNReal.ofReal_mul (by positivity)]
    congr 1
    rw [mul_assoc, mul_assoc, ← exp_add, ← exp_add]
    congr 2
    ring
  · have h0 := not_le.mp h0
    rw [indicator_of_notMem (show x ∉ Ici 0 from not_le.mpr h0)]
    simp only [Pi.mul_apply]
    rw [exponentialPDF_of_neg h0, zero_mul]

theorem tailMeasure_apply (R : ℝ) (s : Set ℝ) (hs : MeasurableSet s) :
    tailMeasure R s = ∫⁻ u in s ∩ Ici R, ENNReal.ofReal (exp (-(u ^ 2) / 2)) := by
  unfold tailMeasure
  rw [withDensity_apply _ hs, Measure.restrict_restrict hs]

theorem shift_integral (R : ℝ) (s : Set ℝ) (hs : MeasurableSet s) :
    ∫⁻ x in ((fun x => R + x) ⁻¹' s) ∩ Ici 0, ENNReal.ofReal (exp (-((x + R) ^ 2) / 2)) =
      ∫⁻ u in s ∩ Ici R, ENNReal.ofReal (exp (-(u ^ 2) / 2)) := by
  have hm : MeasurableSet ((fun x => R + x) ⁻¹' s) := measurable_const_add R hs
  rw [← lintegral_indicator (hm.inter measurableSet_Ici), ← lintegral_indicator (hs.inter measurableSet_Ici)]
  rw [← lintegral_add_right_eq_self (fun u => (s ∩ Ici R).indicator (fun u => ENNReal.ofReal (exp (-(u ^ 2) / 2))) u) R]
  apply lintegral_congr
  intro x
  classical
  rw [indicator_apply, indicator_apply]
  simp only [mem_inter_iff, mem_preimage, mem_Ici]
  have e : (R + x ∈ s ∧ 0 ≤ x) ↔ (x + R ∈ s ∧ R ≤ x + R) := by
    rw [add_comm R x]
    constructor <;> rintro ⟨h1, h2⟩ <;> exact ⟨h1, by linarith⟩
  by_cases h : R + x ∈ s ∧ 0 ≤ x
  · rw [if_pos h, if_pos (e.mp h)]
  · rw [if_neg h, if_neg (fun h2 => h (e.mpr h2))]

/-- **the normal tail sampler (Marsaglia)**: with `X` exponential of rate `R` and `Y` a unit exponential, independent, the law of
`R + X` conditioned on `X^2 ≤ 2 Y` (leaving the loop `while -2 y < x^2`) has density proportional to `exp (-t^2/2)` on `[R, ∞)`:
it is the standard normal law conditioned on exceeding `R`. -/
theorem normal_tail_law {R : ℝ} (hR : 0 < R) :
    Measure.map (fun p : ℝ × ℝ => R + p.1) (((expMeasure R).prod (expMeasure 1))[|Acc]) =
      (tailMeasure R univ)⁻¹ • tailMeasure R := by
  have hmap : Measurable (fun p : ℝ × ℝ => R + p.1) := measurable_fst.const_add R
  ext s hs
  rw [Measure.map_apply hmap hs, cond_apply measurableSet_Acc, Measure.smul_apply, smul_eq_mul]
  have hpre : (fun p : ℝ × ℝ => R + p.1) ⁻¹' s = Prod.fst ⁻¹' ((fun x => R + x) ⁻¹' s) := rfl
  have hAcc : Acc = Acc ∩ Prod.fst ⁻¹' univ := by simp
  have hnum : ((expMeasure R).prod (expMeasure 1)) (Acc ∩ Prod.fst ⁻¹' ((fun x => R + x) ⁻¹' s)) =
      ENNReal.ofReal (R * exp (R ^ 2 / 2)) * tailMeasure R s := by
    rw [accept_measure hR _ (measurable_const_add R hs), shift_integral R s hs, ← tailMeasure_apply R s hs]
  have hden : ((expMeasure R).prod (expMeasure 1)) Acc = ENNReal.ofReal (R * exp (R ^ 2 / 2)) * tailMeasure R univ := by
    have := accept_measure hR ((fun x => R + x) ⁻¹' univ) (measurable_const_add R MeasurableSet.univ)
    rw [shift_integral R univ MeasurableSet.univ, ← tailMeasure_apply R univ MeasurableSet.univ] at this
    rw [← this]
    simp
  rw [hpre, hnum, hden]
  have hK0 : ENNReal.ofReal (R * exp (R ^ 2 / 2)) ≠ 0 := by
    rw [Ne, ENNReal.ofReal_eq_zero, not_le]; positivity
  have hKt : ENNReal.ofReal (R * exp (R ^ 2 / 2)) ≠ ∞ := ENNReal.ofReal_ne_top
  rw [ENNReal.mul_inv (Or.inl hK0) (Or.inl hKt), mul_mul_mul_comm, ENNReal.inv_mul_cancel hK0 hKt, one_mul]

/-- the normalised tail measure is the standard normal law conditioned on `[R, ∞)` -/
theorem tail_is_conditioned_normal (R : ℝ) :
    (tailMeasure R univ)⁻¹ • tailMeasure R = (gaussianReal 0 1)[|Ici R] := by
  have hv : (1 : ℝ≥0) ≠ 0 := one_ne_zero
  set c : ℝ := (√(2 * π * (1 : ℝ≥0)))⁻¹ with hc
  have hcpos : 0 < c := by rw [hc]; positivity
  have hpdf : gaussianPDF 0 1 = fun t => ENNReal.ofReal c * ENNReal.ofReal (exp (-(t ^ 2) / 2)) := by
    funext t
    rw [gaussianPDF, gaussianPDFReal, ← ENNReal.ofReal_mul hcpos.le]
    congr 2
    simp
  have hm : Measurable (fun t : ℝ => ENNReal.ofReal (exp (-(t ^ 2) / 2))) :=
    (((measurable_id.pow_const 2).neg.div_const 2).exp).ennreal_ofReal
  have hrestr : (gaussianReal 0 1).restrict (Ici R) = ENNReal.ofReal c • tailMeasure R := by
    rw [gaussianReal_of_var_ne_zero _ hv, restrict_withDensity measurableSet_Ici, hpdf]
    unfold tailMeasure
    exact withDensity_smul (ENNReal.ofReal c) hm
  have hK0 : ENNReal.ofReal c ≠ 0 := by rw [Ne, ENNReal.ofReal_eq_zero, not_le]; exact hcpos
  have hKt : ENNReal.ofReal c ≠ ∞ := ENNReal.ofReal_ne_top
  have hmass : gaussianReal 0 1 (Ici R) = ENNReal.ofReal c * tailMeasure R univ := by
    rw [← Measure.restrict_apply_univ, hrestr, Measure.smul_apply, smul_eq_mul]
  unfold ProbabilityTheory.cond
  rw [hmass, hrestr, smul_smul, ENNReal.mul_inv (Or.inl hK0) (Or.inl hKt), mul_right_comm, ENNReal.inv_mul_cancel hK0 hKt, one_mul]

/-! ### in terms of the uniform draws of the code -/

/-- the law of one `float01()` draw, idealised: uniform on `(0,1)` -/
noncomputable def unif : Measure ℝ := (volume : Measure ℝ).restrict (Ioo 0 1)

instance : SFinite unif := by unfold unif; infer_instance

theorem cond_map {α β : Type*} [MeasurableSpace α] [MeasurableSpace β] (μ : Measure α) (h : α → β) (hh : Measurable h)
    (A : Set β) (hA : MeasurableSet A) : (Measure.map h μ)[|A] = Measure.map h (μ[|h ⁻¹' A]) := by
  ext s hs
  rw [cond_apply hA, Measure.map_apply hh hA, Measure.map_apply hh (hA.inter hs), Measure.map_apply hh hs, cond_apply (hh hA)]
  rfl

/-- **`ZIG_EXP_R - float01().ln()`**: the exponential tail sampler returns a unit exponential conditioned on exceeding `R` -/
theorem exp_tail_sampler_law {R : ℝ} (hR : 0 ≤ R) :
    Measure.map (fun u => R - log u) unif = (expMeasure 1)[|Ioi R] := by
  have hg : Measurable (fun u : ℝ => -log u) := measurable_log.neg
  rw [← exp_tail_law hR, ← neg_log_uniform, Measure.map_map (g := fun y => R + y) (f := fun u : ℝ => -log u) (measurable_const_add R) hg]
  rfl

/-- **the loop of `zero_case` in `normal.rs`**: `x = ln(U1)/R`, `y = ln(U2)` with independent uniform `U1, U2`, repeated until
`-2 y ≥ x^2`, then `R - x`: the result has density proportional to `exp (-t^2/2)` on `[R, ∞)` -/
theorem normal_tail_sampler_law {R : ℝ} (hR : 0 < R) :
    Measure.map (fun u : ℝ × ℝ => R - log u.1 / R)
        ((unif.prod unif)[|{u | (log u.1 / R) ^ 2 ≤ -2 * log u.2}]) =
      (tailMeasure R univ)⁻¹ • tailMeasure R := by
  have hf : Measurable (fun u : ℝ => -log u / R) := measurable_log.neg.div_const R
  have hg : Measurable (fun u : ℝ => -log u) := measurable_log.neg
  have hX : Measure.map (fun u : ℝ => -log u / R) unif = expMeasure R := by
    rw [← exp_scale hR, ← neg_log_uniform, Measure.map_map (g := fun y : ℝ => y / R) (f := fun u : ℝ => -log u) (measurable_id.div_const R) hg]
    rfl
  have hY : Measure.map (fun u : ℝ => -log u) unif = expMeasure 1 := neg_log_uniform
  have hprod : (expMeasure R).prod (expMeasure 1) = Measure.map (Prod.map (fun u : ℝ => -log u / R) (fun u : ℝ => -log u)) (unif.prod unif) := by
    rw [← hX, ← hY]
    exact Measure.map_prod_map unif unif hf hg
  have hh : Measurable (Prod.map (fun u : ℝ => -log u / R) (fun u : ℝ => -log u)) := hf.prodMap hg
  rw [← normal_tail_law hR, hprod, cond_map _ _ hh _ measurableSet_Acc, Measure.map_map (measurable_fst.const_add R) hh]
  have e1 : (Prod.map (fun u : ℝ => -log u / R) (fun u : ℝ => -log u)) ⁻¹' Acc = {u : ℝ × ℝ | (log u.1 / R) ^ 2 ≤ -2 * log u.2} := by
    ext u
    simp only [Acc, mem_preimage, Prod.map_fst, Prod.map_snd, mem_ofPred_eq]
    have : (-log u.1 / R) ^ 2 = (log u.1 / R) ^ 2 := by rw [neg_div, neg_sq]
    rw [this]
    constructor <;> intro h <;> linarith
  rw [e1]
  congr 1
  funext u
  simp only [Function.comp, Prod.map_fst]
  ring

/-- the same, named: the result is the standard normal law conditioned on `[R, ∞)` -/
theorem normal_tail_sampler_is_conditioned_normal {R : ℝ} (hR : 0 < R) :
    Measure.map (fun u : ℝ × ℝ => R - log u.1 / R)
        ((unif.prod unif)[|{u | (log u.1 / R) ^ 2 ≤ -2 * log u.2}]) = (gaussianReal 0 1)[|Ici R] := by
  rw [normal_tail_sampler_law hR, tail_is_conditioned_normal]

end Urandom.TailLaw
