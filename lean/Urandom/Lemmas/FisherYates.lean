import Mathlib.Data.List.Permutation
import Mathlib.Algebra.BigOperators.Group.Finset.Basic
import Mathlib.Data.Nat.Factorial.Basic
import Mathlib.Data.Finset.Card
import Mathlib.Algebra.Group.Action.Defs
import Mathlib.Algebra.BigOperators.Ring.Finset


namespace Urandom.FY

/-- the loop of `Random::shuffle`: `ks` are the successive results of `index(len)` -/
def fy (a : Array α) : Nat → List Nat → Array α
  | len+2, k :: ks => fy (a.swapIfInBounds k (len+1)) (len+1) ks
  | _, _ => a

/-- valid draw lists for a given `len`: one draw `k < i` for i = len, len-1, …, 2 -/
def Draws : Nat → List Nat → Prop
  | len+2, k :: ks => k < len+2 ∧ Draws (len+1) ks
  | _+2, [] => False
  | _, ks => ks = []

theorem fy_size (a : Array α) : ∀ len ks, (fy a len ks).size = a.size := by
  intro len ks
  induction ks generalizing a len with
  | nil => cases len with
    | zero => simp [fy]
    | succ n => cases n <;> simp [fy]
  | cons k ks ih =>
    match len with
    | 0 => simp [fy]
    | 1 => simp [fy]
    | len+2 => simp [fy, ih]

theorem fy_perm (a : Array α) : ∀ len ks, (fy a len ks).Perm a := by
  intro len ks
  induction ks generalizing a len with
  | nil => cases len with
    | zero => simp [fy]
    | succ n => cases n <;> simp [fy]
  | cons k ks ih =>
    match len with
    | 0 => simp [fy]
    | 1 => simp [fy]
    | len+2 =>
      simp only [fy]
      refine (ih _ _).trans ?_
      rw [Array.swapIfInBounds_def]
      split
      · split
        · exact Array.swap_perm _ _
        · exact .rfl
      · exact .rfl

theorem fy_frozen (a : Array α) : ∀ len ks i (hi : i < a.size), len ≤ i → Draws len ks →
    (fy a len ks)[i]'(by rw [fy_size]; exact hi) = a[i] := by
  intro len ks
  induction ks generalizing a len with
  | nil => intro i hi _ _; cases len with
    | zero => simp [fy]
    | succ n => cases n <;> simp [fy]
  | cons k ks ih =>
    intro i hi hle hd
    match len with
    | 0 => simp [fy]
    | 1 => simp [fy]
    | len+2 =>
      simp only [fy]
      obtain ⟨hk, hd'⟩ := hd
      rw [ih _ _ i (by simpa using hi) (by omega) hd']
      rw [Array.getElem_swapIfInBounds]
      split <;> (try split) <;> (try omega) <;> rfl

def Inj (a : Array α) : Prop := ∀ i j (hi : i < a.size) (hj : j < a.size), a[i] = a[j] → i = j

theorem inj_swap {a : Array α} (h : Inj a) (i j : Nat) : Inj (a.swapIfInBounds i j) := by
  intro x y hx hy hxy
  simp only [Array.size_swapIfInBounds] at hx hy
  by_cases hi : i < a.size <;> by_cases hj : j < a.size
  · rw [Array.getElem_swapIfInBounds, Array.getElem_swapIfInBounds] at hxy
    simp only [hi, hj, and_true] at hxy
    by_cases hji : j = i <;> by_cases hxi : x = i <;> by_cases hxj : x = j <;> by_cases hyi : y = i <;> by_cases hyj : y = j <;>
      simp only [hji, hxi, hxj, hyi, hyj, ↓reduceDIte] at hxy <;>
      first
      | omega
      | (have := h _ _ _ _ hxy; omega)
  all_goals
    rw [Array.getElem_swapIfInBounds, Array.getElem_swapIfInBounds] at hxy
    simp only [hi, hj, and_false, ↓reduceDIte] at hxy
    first
    | exact h _ _ _ _ hxy
    | (split at hxy <;> split at hxy <;> first | omega | exact h _ _ _ _ hxy)

theorem swap_last {a : Array α} (k n : Nat) (hk : k < a.size) (hn : n < a.size) :
    (a.swapIfInBounds k n)[n]'(by simpa using hn) = a[k] := by
  rw [Array.getElem_swapIfInBounds]
  simp only [hk, hn, and_true, ↓reduceDIte]
  by_cases h : n = k
  · subst h; simp
  · simp [h]

/-- distinct draw lists give distinct results on a duplicate-free array (injectivity) -/
theorem fy_injective : ∀ (len : Nat) (a : Array α), Inj a → ∀ ks ks', len ≤ a.size →
    Draws len ks → Draws len ks' → fy a len ks = fy a len ks' → ks = ks' := by
  intro len
  induction len using Nat.strongRecOn with
  | _ len ih =>
    intro a hnd ks ks' hlen hd hd' heq
    match len, ks, ks', hd, hd' with
    | 0, _, _, hd, hd' => simp [Draws] at hd hd'; rw [hd, hd']
    | 1, _, _, hd, hd' => simp [Draws] at hd hd'; rw [hd, hd']
    | len+2, k :: ks, k' :: ks', hd, hd' =>
      obtain ⟨hk, hdr⟩ := hd
      obtain ⟨hk', hdr'⟩ := hd'
      simp only [fy] at heq
      have hsz : len + 1 < a.size := by omega
      have e1 := fy_frozen (a.swapIfInBounds k (len+1)) (len+1) ks (len+1) (by simpa using hsz) (by omega) hdr
      have e2 := fy_frozen (a.swapIfInBounds k' (len+1)) (len+1) ks' (len+1) (by simpa using hsz) (by omega) hdr'
      have hkk : k = k' := by
        have h3 : (a.swapIfInBounds k (len+1))[len+1]'(by simpa using hsz) =
                  (a.swapIfInBounds k' (len+1))[len+1]'(by simpa using hsz) := by
          rw [← e1, ← e2]; simp only [heq]
        rw [swap_last k (len+1) (by omega) hsz, swap_last k' (len+1) (by omega) hsz] at h3
        exact hnd _ _ _ _ h3
      subst hkk
      congr 1
      exact ih (len+1) (by omega) (a.swapIfInBounds k (len+1)) (inj_swap hnd _ _) ks ks' (by simp; omega) hdr hdr' heq



open Finset in
/-- the finite set of valid draw lists -/
def drawSet : Nat → Finset (List Nat)
  | len+2 => (Finset.range (len+2)).biUnion (fun k => (drawSet (len+1)).image (fun ks => k :: ks))
  | _ => {[]}

theorem mem_drawSet : ∀ len ks, ks ∈ drawSet len ↔ Draws len ks := by
  intro len
  induction len using Nat.strongRecOn with
  | _ len ih =>
    intro ks
    match len with
    | 0 => simp [drawSet, Draws]
    | 1 => simp [drawSet, Draws]
    | len+2 =>
      simp only [drawSet, Finset.mem_biUnion, Finset.mem_range, Finset.mem_image]
      constructor
      · rintro ⟨k, hk, ks', hks', rfl⟩
        exact ⟨hk, (ih (len+1) (by omega) ks').1 hks'⟩
      · cases ks with
        | nil => intro h; exact h.elim
        | cons k ks' =>
          rintro ⟨hk, hd⟩
          exact ⟨k, hk, ks', (ih (len+1) (by omega) ks').2 hd, rfl⟩

theorem card_drawSet : ∀ len, (drawSet len).card = len.factorial := by
  intro len
  induction len using Nat.strongRecOn with
  | _ len ih =>
    match len with
    | 0 => simp [drawSet]
    | 1 => simp [drawSet]
    | len+2 =>
      simp only [drawSet]
      rw [Finset.card_biUnion]
      · have : ∀ k ∈ Finset.range (len+2), ((drawSet (len+1)).image (fun ks => k :: ks)).card = (len+1).factorial := by
          intro k _
          rw [Finset.card_image_of_injective _ (List.cons_injective), ih (len+1) (by omega)]
        rw [Finset.sum_congr rfl this, Finset.sum_const, Finset.card_range, smul_eq_mul, Nat.factorial_succ (len+1)]
      · intro x _ y _ hxy
        rw [Function.onFun, Finset.disjoint_left]
        intro l hl hl'
        simp only [Finset.mem_image] at hl hl'
        obtain ⟨_, _, rfl⟩ := hl
        obtain ⟨_, _, h⟩ := hl'
        exact hxy (List.cons_eq_cons.1 h).1.symm

/-- every order of a duplicate-free array arises from exactly one draw list -/
theorem fy_bijective [DecidableEq α] (a : Array α) (hnd : a.toList.Nodup) (σ : List α) (hσ : σ.Perm a.toList) :
    ∃! ks, Draws a.size ks ∧ (fy a a.size ks).toList = σ := by
  have hinj : Inj a := by
    intro i j hi hj h
    have := (List.Nodup.getElem_inj_iff hnd (hi := by simpa using hi) (hj := by simpa using hj)).1 (by simpa using h)
    exact this
  -- the image of the draw set under fy is contained in the permutations and has the same cardinality
  let f : List Nat → List α := fun ks => (fy a a.size ks).toList
  have himg : (drawSet a.size).image f ⊆ a.toList.permutations.toFinset := by
    intro l hl
    simp only [Finset.mem_image] at hl
    obtain ⟨ks, _, rfl⟩ := hl
    simp only [List.mem_toFinset, List.mem_permutations]
    exact (fy_perm a a.size ks).toList
  have hfinj : Set.InjOn f (drawSet a.size) := by
    intro ks hks ks' hks' h
    have hd := (mem_drawSet _ _).1 hks
    have hd' := (mem_drawSet _ _).1 hks'
    exact fy_injective a.size a hinj ks ks' (le_refl _) hd hd' (Array.ext' h)
  have hcard : ((drawSet a.size).image f).card = a.toList.permutations.toFinset.card := by
    rw [Finset.card_image_of_injOn hfinj, card_drawSet, List.toFinset_card_of_nodup (List.nodup_permutations _ hnd),
      List.length_permutations]
    simp
  have heq := Finset.eq_of_subset_of_card_le himg (le_of_eq hcard.symm)
  have hmem : σ ∈ (drawSet a.size).image f := by
    rw [heq]; simp [List.mem_permutations, hσ]
  simp only [Finset.mem_image] at hmem
  obtain ⟨ks, hks, hf⟩ := hmem
  refine ⟨ks, ⟨(mem_drawSet _ _).1 hks, hf⟩, ?_⟩
  rintro ks' ⟨hd', hf'⟩
  exact hfinj ((mem_drawSet _ _).2 hd') hks (hf'.trans hf.symm)


end Urandom.FY
