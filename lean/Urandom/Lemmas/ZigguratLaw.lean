import Mathlib.MeasureTheory.Measure.Lebesgue.Basic
import Mathlib.Probability.ConditionalProbability
import Mathlib.MeasureTheory.Measure.WithDensity
/-
The law of the ziggurat method, for the idealised algorithm (exact real arithmetic, exactly uniform
draws): Mathlib measure theory.  `ziggurat_law` is the classical argument -
  equal-area disjoint layers + a uniform layer index + a uniform point in the layer  = a uniform point of the cover;
  keeping it only if it lies under the curve (else starting over)                    = a uniform point under the curve;
  the abscissa of a uniform point under the curve                                    has density f / ∫ f.
-/
open MeasureTheory ProbabilityTheory Set ENNReal

namespace Urandom.ZigLaw

/-- the region strictly under the graph of `f` (and above the axis) -/
def under (f : ℝ → ℝ) : Set (ℝ × ℝ) := regionBetween 0 f univ

theorem measurableSet_under (f : ℝ → ℝ) (hf : Measurable f) : MeasurableSet (under f) :=
  measurableSet_regionBetween measurable_zero hf MeasurableSet.univ

/-- the `x`-marginal of Lebesgue measure on the region under `f` has density `f` -/
theorem map_fst_restrict_under (f : ℝ → ℝ) (hf : Measurable f) :
    Measure.map Prod.fst ((volume : Measure (ℝ × ℝ)).restrict (under f)) =
      (volume : Measure ℝ).withDensity (fun x => ENNReal.ofReal (f x)) := by
  ext s hs
  rw [Measure.map_apply measurable_fst hs, Measure.restrict_apply (measurable_fst hs), withDensity_apply _ hs]
  have h1 : Prod.fst ⁻¹' s ∩ under f = regionBetween 0 f s := by
    ext p
    simp only [under, regionBetween, mem_inter_iff, mem_preimage, mem_setOf_eq, mem_univ, true_and]
  rw [h1, Measure.volume_eq_prod, volume_regionBetween_eq_lintegral' measurable_zero hf hs]
  simp

/-- choosing one of `n` pairwise disjoint regions of equal (finite, non-zero) area uniformly and
then a uniform point of it is choosing a uniform point of their union -/
theorem mixture_eq_uniform_union {n : ℕ} (R : Fin n → Set (ℝ × ℝ)) (hR : ∀ i, MeasurableSet (R i))
    (hd : Pairwise (Function.onFun Disjoint R)) (v : ℝ≥0∞) (hv : ∀ i, volume (R i) = v)
    (hn : 0 < n) :
    (n : ℝ≥0∞)⁻¹ • ∑ i, (volume : Measure (ℝ × ℝ))[|R i] = (volume : Measure (ℝ × ℝ))[|⋃ i, R i] := by
  have hU : volume (⋃ i, R i) = n * v := by
    rw [measure_iUnion hd hR, tsum_fintype]
    simp [hv]
  have hn0 : (n : ℝ≥0∞) ≠ 0 := by exact_mod_cast hn.ne'
  have hnt : (n : ℝ≥0∞) ≠ ∞ := ENNReal.natCast_ne_top n
  unfold ProbabilityTheory.cond
  rw [hU, Measure.restrict_iUnion hd hR, Measure.sum_fintype]
  simp only [hv]
  rw [← Finset.smul_sum, smul_smul, ENNReal.mul_inv (Or.inl hn0) (Or.inl hnt)]

/-- **the ziggurat samples the law with density `f / ∫ f`** (idealised: exact real arithmetic and
exactly uniform draws): if the layers `R i` are pairwise disjoint, of equal area, and together cover
the region under `f`, then choosing a layer uniformly, a uniform point in it, and keeping the point
only if it lies under the curve (otherwise starting over: conditioning) yields an abscissa whose
law has density `f / ∫ f`. -/
theorem ziggurat_law {n : ℕ} (f : ℝ → ℝ) (hf : Measurable f)
    (R : Fin n → Set (ℝ × ℝ)) (hR : ∀ i, MeasurableSet (R i))
    (hd : Pairwise (Function.onFun Disjoint R)) (v : ℝ≥0∞) (hv : ∀ i, volume (R i) = v) (hvt : v ≠ ∞)
    (hn : 0 < n) (hcover : under f ⊆ ⋃ i, R i) :
    Measure.map Prod.fst (((n : ℝ≥0∞)⁻¹ • ∑ i, (volume : Measure (ℝ × ℝ))[|R i])[|under f]) =
      (∫⁻ x, ENNReal.ofReal (f x))⁻¹ • (volume : Measure ℝ).withDensity (fun x => ENNReal.ofReal (f x)) := by
  have hUt : volume (⋃ i, R i) ≠ ∞ := by
    rw [measure_iUnion hd hR, tsum_fintype]
    simp only [hv, Finset.sum_const, Finset.card_univ, Fintype.card_fin, nsmul_eq_mul]
    exact ENNReal.mul_ne_top (ENNReal.natCast_ne_top n) hvt
  rw [mixture_eq_uniform_union R hR hd v hv hn,
    cond_cond_eq_cond_inter' (MeasurableSet.iUnion hR) (measurableSet_under f hf) hUt,
    Set.inter_eq_right.2 hcover]
  unfold ProbabilityTheory.cond
  rw [Measure.map_smul, map_fst_restrict_under f hf]
  congr 2
  have := volume_regionBetween_eq_lintegral' (μ := (volume : Measure ℝ)) measurable_zero hf MeasurableSet.univ
  rw [Measure.restrict_univ] at this
  rw [under, Measure.volume_eq_prod, this]
  simp

end Urandom.ZigLaw
