import Mathlib.GroupTheory.Perm.Cycle.Type
import Mathlib.Data.BitVec
import Mathlib.Data.Fintype.Card
import Mathlib.Data.Fintype.Prod
import Mathlib.Dynamics.PeriodicPts.Lemmas
import Urandom.Model.Word
/-
The OUTPUT sequence of xoshiro256++ has the full period of the state sequence.

Abstract argument (this file, no constants): let `T` be a map on a finite state space with a fixed
point `z` such that every other state has minimal period `P` and there are exactly `P` other states
(one cycle). Let `f` be an output function all of whose fibres over non-`f z` values have a
cardinality coprime to... more simply a power of two, while `P` is odd. If the output sequence
`f (T^[n] s)` of some `s ≠ z` has period `m`, then `P ∣ m`.

Proof: otherwise there is a prime `r ∣ P` with `r ∤ m`; `k = m · (P / r)` is not a multiple of `P`
but `k · r` is. `T^[k]` permutes the fibre `F = f⁻¹(v)` (`v ≠ f z`) and its `r`-th power is the
identity; `r` does not divide `|F|` (a power of two, `r` odd), so `T^[k]` has a fixed point in `F`
(`Equiv.Perm.exists_fixed_point_of_prime`), a state `≠ z` whose period `P` then divides `k`:
contradiction.
-/
namespace Urandom.XoOut
open Function

/-! ### finiteness of the state space -/

instance (n : ℕ) : Fintype (BitVec n) := Fintype.ofEquiv (Fin (2 ^ n)) BitVec.equivFin.symm.toEquiv

theorem card_bitvec (n : ℕ) : Fintype.card (BitVec n) = 2 ^ n := by
  rw [Fintype.card_congr (BitVec.equivFin (m := n)).toEquiv, Fintype.card_fin]

open Urandom.Xoshiro in
def sEquiv : S ≃ BitVec 64 × BitVec 64 × BitVec 64 × BitVec 64 where
  toFun s := (s.s0, s.s1, s.s2, s.s3)
  invFun t := ⟨t.1, t.2.1, t.2.2.1, t.2.2.2⟩
  left_inv s := by cases s; rfl
  right_inv t := by rfl

open Urandom.Xoshiro in
instance : Fintype S := Fintype.ofEquiv _ sEquiv.symm

open Urandom.Xoshiro in
theorem card_S : Fintype.card S = 2 ^ 256 := by
  rw [Fintype.card_congr sEquiv]
  simp only [Fintype.card_prod, card_bitvec]
  norm_num

/-! ### the abstract theorem -/

section abstract
variable {σ : Type} [Fintype σ] [DecidableEq σ] {ω : Type} [DecidableEq ω]

/-- one cycle: every state other than the fixed point is reached from `s` -/
theorem single_cycle (T : σ → σ) (z : σ) (P : ℕ) (hcard : Fintype.card σ = P + 1)
    (hper : ∀ x, x ≠ z → minimalPeriod T x = P) (hnz : ∀ x, x ≠ z → ∀ n, T^[n] x ≠ z)
    (s : σ) (hs : s ≠ z) (x : σ) (hx : x ≠ z) : ∃ n, T^[n] s = x := by
  classical
  have hP : 0 < P := by
    have := hper s hs
    rw [← this]
    exact minimalPeriod_pos_of_mem_periodicPts (by
      by_contra h
      have h0 : minimalPeriod T s = 0 := minimalPeriod_eq_zero_of_notMem_periodicPts h
      have hc : Fintype.card σ = 1 := by rw [hcard, ← hper s hs, h0]
      have : s = z := (Fintype.card_le_one_iff.1 hc.le) s z
      exact hs this)
  let g : Fin P → {y : σ // y ≠ z} := fun n => ⟨T^[n.1] s, hnz s hs n.1⟩
  have hinj : Injective g := by
    intro a b hab
    have h1 : T^[a.1] s = T^[b.1] s := congrArg Subtype.val hab
    have ha : a.1 < minimalPeriod T s := by rw [hper s hs]; exact a.2
    have hb : b.1 < minimalPeriod T s := by rw [hper s hs]; exact b.2
    exact Fin.ext ((iterate_eq_iterate_iff_of_lt_minimalPeriod ha hb).1 h1)
  have hc : Fintype.card (Fin P) = Fintype.card {y : σ // y ≠ z} := by
    rw [Fintype.card_fin, Fintype.card_subtype_compl, Fintype.card_subtype_eq, hcard]
    omega
  have hbij := (Fintype.bijective_iff_injective_and_card g).2 ⟨hinj, hc⟩
  obtain ⟨n, hn⟩ := hbij.2 ⟨x, hx⟩
  exact ⟨n.1, congrArg Subtype.val hn⟩

/-- **the output sequence has the full period** -/
theorem output_period (T : σ → σ) (z : σ) (hz : T z = z) (P : ℕ) (hcard : Fintype.card σ = P + 1)
    (hper : ∀ x, x ≠ z → minimalPeriod T x = P) (hnz : ∀ x, x ≠ z → ∀ n, T^[n] x ≠ z)
    (hTP : ∀ x, T^[P] x = x)
    (f : σ → ω) (v : ω) (hv : f z ≠ v) (e : ℕ)
    (hfib : ∀ [Fintype {x : σ // f x = v}], Fintype.card {x : σ // f x = v} = 2 ^ e)
    (hodd : ∀ r : ℕ, r.Prime → r ∣ P → r ≠ 2)
    (hsq : ∀ m : ℕ, (∀ r : ℕ, r.Prime → r ∣ P → r ∣ m) → P ∣ m)
    (s : σ) (hs : s ≠ z) (m : ℕ) (hm : ∀ n, f (T^[n + m] s) = f (T^[n] s)) : P ∣ m := by
  classical
  by_contra hnd
  -- a prime of `P` missing in `m`
  obtain ⟨r, hr, hrP, hrm⟩ : ∃ r : ℕ, r.Prime ∧ r ∣ P ∧ ¬ r ∣ m := by
    by_contra h
    push_neg at h
    exact hnd (hsq m h)
  obtain ⟨c, hc⟩ := hrP
  have hr0 : 0 < r := hr.pos
  set k := m * c with hk
  -- `T^[m]` leaves the output unchanged everywhere, hence so does `T^[k]`
  have hzi : ∀ n, T^[n] z = z := fun n => iterate_fixed hz n
  have hfm : ∀ x, f (T^[m] x) = f x := by
    intro x
    by_cases hx : x = z
    · rw [hx, hzi]
    · obtain ⟨n, rfl⟩ := single_cycle T z P hcard hper hnz s hs x hx
      rw [← iterate_add_apply, Nat.add_comm]
      exact hm n
  have hfk : ∀ j x, f (T^[m * j] x) = f x := by
    intro j
    induction j with
    | zero => intro x; simp
    | succ j ih =>
      intro x
      rw [Nat.mul_succ, iterate_add_apply, ih, hfm]
  -- `T^[k * r]` is the identity
  have hkr : ∀ x, T^[k * r] x = x := by
    intro x
    have : k * r = P * m := by rw [hk, hc]; ring
    rw [this]
    exact (show IsPeriodicPt T P x from hTP x).mul_const m
  -- the permutation of the fibre
  let F := {x : σ // f x = v}
  have hr1 : 1 ≤ r := hr0
  let τ : F → F := fun x => ⟨T^[k] x.1, by rw [hk, hfk, x.2]⟩
  let τi : F → F := fun x => ⟨T^[k * (r - 1)] x.1, by rw [hk, Nat.mul_assoc, hfk, x.2]⟩
  have hli : LeftInverse τi τ := by
    intro x
    apply Subtype.ext
    show T^[k * (r - 1)] (T^[k] x.1) = x.1
    rw [← iterate_add_apply]
    have : k * (r - 1) + k = k * r := by
      have : r - 1 + 1 = r := Nat.sub_add_cancel hr1
      calc k * (r - 1) + k = k * (r - 1 + 1) := by ring
        _ = k * r := by rw [this]
    rw [this, hkr]
  have hri : RightInverse τi τ := by
    intro x
    apply Subtype.ext
    show T^[k] (T^[k * (r - 1)] x.1) = x.1
    rw [← iterate_add_apply]
    have : k + k * (r - 1) = k * r := by
      have : 1 + (r - 1) = r := by omega
      calc k + k * (r - 1) = k * (1 + (r - 1)) := by ring
        _ = k * r := by rw [this]
    rw [this, hkr]
  let π : Equiv.Perm F := ⟨τ, τi, hli, hri⟩
  have hpow : ∀ j (x : F), ((π ^ j) x).1 = T^[k * j] x.1 := by
    intro j
    induction j with
    | zero => intro x; simp
    | succ j ih =>
      intro x
      rw [pow_succ, Equiv.Perm.mul_apply, ih]
      show T^[k * j] (T^[k] x.1) = _
      rw [← iterate_add_apply, Nat.mul_succ]
  have hπ : π ^ r ^ 1 = 1 := by
    ext x
    rw [pow_one, hpow, hkr]
    rfl
  have hnotdvd : ¬ r ∣ Fintype.card F := by
    rw [hfib]
    intro h
    have := (Nat.prime_dvd_prime_iff_eq hr Nat.prime_two).1 (hr.dvd_of_dvd_pow h)
    exact hodd r hr ⟨c, hc⟩ this
  haveI : Fact r.Prime := ⟨hr⟩
  obtain ⟨a, ha⟩ := Equiv.Perm.exists_fixed_point_of_prime hnotdvd hπ
  -- the fixed point is a state other than `z` whose period divides `k`
  have haz : a.1 ≠ z := fun h => hv (by rw [← h]; exact a.2)
  have hfix : T^[k] a.1 = a.1 := congrArg Subtype.val ha
  have hdvd : P ∣ k := by
    rw [← hper a.1 haz]
    exact (show IsPeriodicPt T k a.1 from hfix).minimalPeriod_dvd
  -- but `P = r c` does not divide `k = m c`
  rw [hk, hc] at hdvd
  have hc0 : 0 < c := by
    rcases Nat.eq_zero_or_pos c with h | h
    · exfalso
      have hP0 : P = 0 := by rw [hc, h, Nat.mul_zero]
      have := hper s hs
      rw [hP0] at this
      have h1 : Fintype.card σ = 1 := by rw [hcard, hP0]
      exact hs ((Fintype.card_le_one_iff.1 h1.le) s z)
    · exact h
  exact hrm ((Nat.mul_dvd_mul_iff_right hc0).1 hdvd)

end abstract

end Urandom.XoOut

namespace Urandom.XoOut
open Function Urandom.Xoshiro

/-! ### the fibres of the `++` scrambler -/

theorem rotl23_injective : Injective (fun x : BitVec 64 => x.rotateLeft 23) := by
  intro x y h
  have h' : x.rotateLeft 23 = y.rotateLeft 23 := h
  apply BitVec.eq_of_getElem_eq
  intro j hj
  by_cases hj41 : j < 41
  · have hi : j + 23 < 64 := by omega
    have hx := BitVec.getElem_rotateLeft (x := x) (r := 23) hi
    have hy := BitVec.getElem_rotateLeft (x := y) (r := 23) hi
    have hlt : ¬ (j + 23 < 23 % 64) := by omega
    rw [dif_neg hlt] at hx hy
    have e : j + 23 - 23 % 64 = j := by omega
    simp only [e] at hx hy
    rw [← hx, ← hy, h']
  · have hi : j - 41 < 64 := by omega
    have hx := BitVec.getElem_rotateLeft (x := x) (r := 23) hi
    have hy := BitVec.getElem_rotateLeft (x := y) (r := 23) hi
    have hlt : j - 41 < 23 % 64 := by omega
    rw [dif_pos hlt] at hx hy
    have e : 64 - 23 % 64 + (j - 41) = j := by omega
    simp only [e] at hx hy
    rw [← hx, ← hy, h']

/-- for a fixed first word `a` the output `(a + t).rotl 23 + a` is a bijection of the last word `t` -/
theorem out_bijective (a : BitVec 64) : Bijective (fun t : BitVec 64 => (a + t).rotateLeft 23 + a) := by
  apply Finite.injective_iff_bijective.1
  intro t u h
  have h1 : (a + t).rotateLeft 23 = (a + u).rotateLeft 23 := (BitVec.add_left_inj a).1 (by simpa using h)
  have h2 := rotl23_injective h1
  exact (BitVec.add_right_inj a).1 h2

/-- the states with output `v` are parametrised by their first three words -/
noncomputable def fibreEquiv (v : BitVec 64) : {x : S // outPlusPlus x = v} ≃ BitVec 64 × BitVec 64 × BitVec 64 where
  toFun x := (x.1.s0, x.1.s1, x.1.s2)
  invFun t := ⟨⟨t.1, t.2.1, t.2.2, (Equiv.ofBijective _ (out_bijective t.1)).symm v⟩, by
    show (t.1 + (Equiv.ofBijective _ (out_bijective t.1)).symm v).rotateLeft 23 + t.1 = v
    exact (Equiv.ofBijective _ (out_bijective t.1)).apply_symm_apply v⟩
  left_inv x := by
    obtain ⟨⟨a, b, c, d⟩, hx⟩ := x
    apply Subtype.ext
    show (⟨a, b, c, (Equiv.ofBijective _ (out_bijective a)).symm v⟩ : S) = ⟨a, b, c, d⟩
    congr 1
    rw [Equiv.symm_apply_eq]
    exact hx.symm
  right_inv t := rfl

theorem card_fibre (v : BitVec 64) [Fintype {x : S // outPlusPlus x = v}] :
    Fintype.card {x : S // outPlusPlus x = v} = 2 ^ 192 := by
  rw [Fintype.card_congr (fibreEquiv v)]
  simp only [Fintype.card_prod, card_bitvec]
  norm_num

end Urandom.XoOut

namespace Urandom.XoOut
open Function Urandom.Xoshiro

/-! ### the fibres of the `+` scrambler followed by a right shift (32-bit words, unit floats) -/

/-- `next_u32`, `next_f32`, `next_f64` are the top `64 - k` bits of `s0 + s3` (k = 32, 41, 12) -/
def outPlusShift (k : ℕ) (s : S) : BitVec 64 := (s.s0 + s.s3) >>> k

/-- the 64-bit words whose top bits are `…0001`: exactly the `2^k` numbers in `[2^k, 2^(k+1))` -/
def topOneEquiv (k : ℕ) (hk : k < 64) : {w : BitVec 64 // w >>> k = 1#64} ≃ {n : ℕ // n ∈ Finset.Ico (2 ^ k) (2 ^ (k + 1))} where
  toFun w := ⟨w.1.toNat, by
    have h := congrArg BitVec.toNat w.2
    rw [BitVec.toNat_ushiftRight, Nat.shiftRight_eq_div_pow] at h
    have h1 : (1#64 : BitVec 64).toNat = 1 := by decide
    rw [h1] at h
    have hp : 0 < 2 ^ k := Nat.pos_of_ne_zero (by positivity)
    rw [Finset.mem_Ico, pow_succ]
    constructor
    · by_contra hlt
      rw [Nat.div_eq_of_lt (by omega)] at h
      omega
    · by_contra hge
      have : 2 ≤ w.1.toNat / 2 ^ k := (Nat.le_div_iff_mul_le hp).2 (by omega)
      omega⟩
  invFun n := ⟨BitVec.ofNat 64 n.1, by
    have hn := Finset.mem_Ico.1 n.2
    have hlt : n.1 < 2 ^ 64 := lt_of_lt_of_le hn.2 (Nat.pow_le_pow_right (by decide) (by omega))
    apply BitVec.eq_of_toNat_eq
    rw [BitVec.toNat_ushiftRight, Nat.shiftRight_eq_div_pow, BitVec.toNat_ofNat, Nat.mod_eq_of_lt hlt]
    have h1 : (1#64 : BitVec 64).toNat = 1 := by decide
    rw [h1]
    have hp : 0 < 2 ^ k := Nat.pos_of_ne_zero (by positivity)
    have hn2 : n.1 < 2 ^ k * 2 := lt_of_lt_of_eq hn.2 (pow_succ 2 k)
    apply Nat.div_eq_of_lt_le <;> omega⟩
  left_inv w := by
    apply Subtype.ext
    show BitVec.ofNat 64 w.1.toNat = w.1
    apply BitVec.eq_of_toNat_eq
    rw [BitVec.toNat_ofNat, Nat.mod_eq_of_lt w.1.isLt]
  right_inv n := by
    apply Subtype.ext
    have hn := Finset.mem_Ico.1 n.2
    have hlt : n.1 < 2 ^ 64 := lt_of_lt_of_le hn.2 (Nat.pow_le_pow_right (by decide) (by omega))
    show (BitVec.ofNat 64 n.1).toNat = n.1
    rw [BitVec.toNat_ofNat, Nat.mod_eq_of_lt hlt]

theorem card_topOne (k : ℕ) (hk : k < 64) [Fintype {w : BitVec 64 // w >>> k = 1#64}] :
    Fintype.card {w : BitVec 64 // w >>> k = 1#64} = 2 ^ k := by
  rw [Fintype.card_congr (topOneEquiv k hk), Fintype.card_coe, Nat.card_Ico, pow_succ]
  omega

/-- the states whose shifted `+` output is `1`: first three words free, the sum `s0 + s3` in the fibre above -/
def plusFibreEquiv (k : ℕ) : {x : S // outPlusShift k x = 1#64} ≃
    (BitVec 64 × BitVec 64 × BitVec 64) × {w : BitVec 64 // w >>> k = 1#64} where
  toFun x := ((x.1.s0, x.1.s1, x.1.s2), ⟨x.1.s0 + x.1.s3, x.2⟩)
  invFun t := ⟨⟨t.1.1, t.1.2.1, t.1.2.2, t.2.1 - t.1.1⟩, by
    show (t.1.1 + (t.2.1 - t.1.1)) >>> k = 1#64
    have : t.1.1 + (t.2.1 - t.1.1) = t.2.1 := by
      rw [BitVec.add_comm, BitVec.sub_add_cancel]
    rw [this]; exact t.2.2⟩
  left_inv x := by
    obtain ⟨⟨a, b, c, d⟩, hx⟩ := x
    apply Subtype.ext
    show (⟨a, b, c, a + d - a⟩ : S) = ⟨a, b, c, d⟩
    congr 1
    rw [BitVec.add_comm, BitVec.add_sub_cancel]
  right_inv t := by
    obtain ⟨⟨a, b, c⟩, ⟨w, hw⟩⟩ := t
    apply Prod.ext
    · rfl
    · apply Subtype.ext
      show a + (w - a) = w
      rw [BitVec.add_comm, BitVec.sub_add_cancel]

theorem card_plusFibre (k : ℕ) (hk : k < 64) [Fintype {x : S // outPlusShift k x = 1#64}] :
    Fintype.card {x : S // outPlusShift k x = 1#64} = 2 ^ (192 + k) := by
  classical
  rw [Fintype.card_congr (plusFibreEquiv k), Fintype.card_prod, card_topOne k hk]
  simp only [Fintype.card_prod, card_bitvec]
  rw [pow_add]
  norm_num

end Urandom.XoOut
