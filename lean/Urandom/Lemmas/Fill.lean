import Urandom.Model.Word
/-
`rng_fill_bytes` as a write log: the writes are contiguous from `off`, their data is the first
`len` bytes of the little-endian serialisation of the next ⌈len/8⌉ words, and applying them to a
buffer changes exactly `[off, off+len)`.  Used by C01 (closed form of `fill`) and C10 (tiling).
-/
namespace Urandom

/-- the next `k` 64-bit outputs of a word generator -/
def WordGen.words {σ : Type} (g : WordGen σ) : Nat → σ → List (BitVec 64)
  | 0, _ => []
  | k+1, s => (g.u64 s).1 :: g.words k (g.u64 s).2

/-- the state after `k` 64-bit draws -/
def WordGen.after {σ : Type} (g : WordGen σ) : Nat → σ → σ
  | 0, s => s
  | k+1, s => g.after k (g.u64 s).2

def WordGen.byteStream {σ : Type} (g : WordGen σ) (k : Nat) (s : σ) : List Byte :=
  (g.words k s).flatMap (fun v => leBytes v 8)

/-- The writes start at `off` and each begins where the previous one ended. -/
def Contig : Nat → List Write → Prop
  | _, [] => True
  | off, w :: ws => w.off = off ∧ Contig (off + w.data.length) ws

def dataOf (ws : List Write) : List Byte := ws.flatMap (·.data)

@[simp] theorem leBytes_length (v : BitVec 64) (n : Nat) : (leBytes v n).length = n := by
  simp [leBytes]

theorem leBytes_take (v : BitVec 64) (n m : Nat) (h : m ≤ n) : (leBytes v n).take m = leBytes v m := by
  simp only [leBytes, ← List.map_take, List.take_range]
  rw [Nat.min_eq_left h]

/-- writing `data` over the middle part of `pre ++ mid ++ post` -/
theorem applyWrite_decomp (pre mid post data : List Byte) (h : mid.length = data.length) :
    applyWrite (pre ++ mid ++ post) ⟨pre.length, data⟩ = pre ++ data ++ post := by
  unfold applyWrite
  have h1 : (pre ++ mid ++ post).take pre.length = pre := by
    rw [List.append_assoc]; exact List.take_left' rfl
  have h2 : data.take ((pre ++ mid ++ post).length - pre.length) = data := by
    apply List.take_of_length_le
    simp only [List.length_append]; omega
  have h3 : (pre ++ mid ++ post).drop (pre.length + data.length) = post := by
    apply List.drop_left'
    simp only [List.length_append]; omega
  simp only [h1, h2, h3]

/-- Contiguous writes whose data is as long as `mid` replace exactly `mid`. -/
theorem applyWrites_contig : ∀ (ws : List Write) (pre mid post : List Byte),
    Contig pre.length ws → mid.length = (dataOf ws).length →
    applyWrites (pre ++ mid ++ post) ws = pre ++ dataOf ws ++ post
  | [], pre, mid, post, _, hm => by
      have : mid = [] := List.eq_nil_of_length_eq_zero (by simpa [dataOf] using hm)
      simp [applyWrites, dataOf, this]
  | ⟨woff, data⟩ :: ws, pre, mid, post, hc, hm => by
      obtain ⟨hoff, hc'⟩ := hc
      simp only at hoff hc'
      subst hoff
      have hd : dataOf (⟨pre.length, data⟩ :: ws) = data ++ dataOf ws := by simp [dataOf]
      rw [hd, List.length_append] at hm
      obtain ⟨m1, m2, rfl, hl1, hl2⟩ : ∃ m1 m2, mid = m1 ++ m2 ∧ m1.length = data.length ∧
          m2.length = (dataOf ws).length :=
        ⟨mid.take data.length, mid.drop data.length, (List.take_append_drop _ _).symm,
          by rw [List.length_take]; omega, by rw [List.length_drop]; omega⟩
      show applyWrites (applyWrite (pre ++ (m1 ++ m2) ++ post) ⟨pre.length, data⟩) ws = _
      have e : pre ++ (m1 ++ m2) ++ post = pre ++ m1 ++ (m2 ++ post) := by
        simp [List.append_assoc]
      rw [e, applyWrite_decomp pre _ _ data hl1]
      have ih := applyWrites_contig ws (pre ++ data) m2 post
        (by rw [List.length_append]; exact hc') hl2
      rw [← List.append_assoc, ih, hd]
      simp [List.append_assoc]

theorem shr_shr (v : BitVec 64) (a b : Nat) : v >>> a >>> b = v >>> (a + b) := by
  rw [BitVec.shiftRight_add]

/-- The 4/2/1-byte tail stores are contiguous and carry the low `len` bytes of the word. -/
theorem fillTail_spec (v : BitVec 64) (off len : Nat) (h0 : 0 < len) (h8 : len < 8) :
    Contig off (fillTail v off len) ∧ dataOf (fillTail v off len) = leBytes v len := by
  have hc : len = 1 ∨ len = 2 ∨ len = 3 ∨ len = 4 ∨ len = 5 ∨ len = 6 ∨ len = 7 := by omega
  rcases hc with h | h | h | h | h | h | h <;> subst h <;>
    simp [fillTail, Contig, dataOf, leBytes, List.range, List.range.loop, shr_shr]

theorem WordGen.byteStream_succ {σ : Type} (g : WordGen σ) (k : Nat) (s : σ) :
    g.byteStream (k + 1) s = leBytes (g.u64 s).1 8 ++ g.byteStream k (g.u64 s).2 := by
  simp [WordGen.byteStream, WordGen.words]

@[simp] theorem WordGen.byteStream_length {σ : Type} (g : WordGen σ) (k : Nat) (s : σ) :
    (g.byteStream k s).length = 8 * k := by
  induction k generalizing s with
  | zero => simp [WordGen.byteStream, WordGen.words]
  | succ k ih => rw [g.byteStream_succ, List.length_append, ih]; simp; omega

/-- **`rng_fill_bytes` in closed form.**  For every length, start offset and generator state the
write log is contiguous from `off`, carries exactly the first `len` bytes of the little-endian
serialisation of the next `⌈len/8⌉` words, and leaves the generator `⌈len/8⌉` draws later. -/
theorem rngFillWrites_spec {σ : Type} (g : WordGen σ) : ∀ (len : Nat) (s : σ) (off : Nat),
    Contig off (rngFillWrites g s off len).1 ∧
    dataOf (rngFillWrites g s off len).1 = (g.byteStream ((len + 7) / 8) s).take len ∧
    (rngFillWrites g s off len).2 = g.after ((len + 7) / 8) s := by
  intro len
  induction len using Nat.strongRecOn with
  | _ len ih =>
    intro s off
    rw [rngFillWrites]
    by_cases h8 : len ≥ 8
    · obtain ⟨c, d, e⟩ := ih (len - 8) (by omega) (g.u64 s).2 (off + 8)
      have hk : (len + 7) / 8 = (len - 8 + 7) / 8 + 1 := by omega
      simp only [h8, ↓reduceDIte]
      refine ⟨⟨rfl, by simpa using c⟩, ?_, ?_⟩
      · show dataOf (_ :: _) = _
        rw [hk, g.byteStream_succ]
        have : dataOf (Write.mk off (leBytes (g.u64 s).1 8) :: (rngFillWrites g (g.u64 s).2 (off + 8) (len - 8)).1)
            = leBytes (g.u64 s).1 8 ++ dataOf (rngFillWrites g (g.u64 s).2 (off + 8) (len - 8)).1 := by
          simp [dataOf]
        have ht : List.take len (leBytes (g.u64 s).1 8) = leBytes (g.u64 s).1 8 :=
          List.take_of_length_le (by simp; omega)
        rw [this, d, List.take_append, ht]
        simp only [leBytes_length]
      · rw [hk]; exact e
    · simp only [h8, ↓reduceDIte]
      by_cases h0 : len > 0
      · have hk : (len + 7) / 8 = 1 := by omega
        obtain ⟨c, d⟩ := fillTail_spec (g.u64 s).1 off len h0 (by omega)
        simp only [h0, ↓reduceIte, hk]
        refine ⟨c, ?_, rfl⟩
        rw [d, g.byteStream_succ]
        simp only [WordGen.byteStream, WordGen.words, List.flatMap_nil, List.append_nil]
        exact (leBytes_take _ 8 len (by omega)).symm
      · have : len = 0 := by omega
        subst this
        simp [Contig, dataOf, WordGen.byteStream, WordGen.words, WordGen.after]

theorem dataOf_length_rngFill {σ : Type} (g : WordGen σ) (len : Nat) (s : σ) (off : Nat) :
    (dataOf (rngFillWrites g s off len).1).length = len := by
  rw [(rngFillWrites_spec g len s off).2.1, List.length_take, g.byteStream_length]
  omega

/-- `fill_bytes(len)` = the first `len` bytes of the word stream; state `⌈len/8⌉` draws later. -/
theorem fillBytes_eq {σ : Type} (g : WordGen σ) (s : σ) (len : Nat) :
    fillBytes g s len = ((g.byteStream ((len + 7) / 8) s).take len, g.after ((len + 7) / 8) s) := by
  unfold fillBytes
  obtain ⟨c, d, e⟩ := rngFillWrites_spec g len s 0
  have hl := dataOf_length_rngFill g len s 0
  have := applyWrites_contig (rngFillWrites g s 0 len).1 [] (List.replicate len 0#8) [] (by simpa using c)
    (by simp [hl])
  simp only [List.nil_append, List.append_nil] at this
  cases hr : rngFillWrites g s 0 len with
  | mk ws s' =>
    simp only [hr] at this d e
    simp only [this, d, e]

end Urandom
