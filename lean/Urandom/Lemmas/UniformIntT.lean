import Urandom.Model.UniformInt
namespace Urandom.UniformIntT
open Urandom

/-- `$wmul(a, b)`: the widening multiply, generic in the word width (the translated `wmul32` / `wmul64` are the instances 32, 64) -/
def wmul (L : Nat) (a b : BitVec L) : BitVec L × BitVec L :=
  let full := a.setWidth (L + L) * b.setWidth (L + L)
  ((full >>> L).setWidth L, (full &&& BitVec.ofNat (L + L) (2 ^ L - 1)).setWidth L)

/-- one trip round the loop of `sample`, generic in the value width `N` and the word width `L` -/
def iterBV (N L : Nat) (base : BitVec N) (range zone value : BitVec L) : Sum (BitVec N) (BitVec L) :=
  if range == 0#L then .inl (value.setWidth N)
  else
    let p := wmul L value range
    if p.2 ≥ zone then .inl (base + p.1.setWidth N)
    else if zone == range then
      let zone' := (0#L - range) % range
      if p.2 ≥ zone' then .inl (base + p.1.setWidth N) else .inr zone'
    else .inr zone

theorem wmul_toNat (L : Nat) (a b : BitVec L) :
    (wmul L a b).1.toNat = a.toNat * b.toNat / 2 ^ L ∧ (wmul L a b).2.toNat = a.toNat * b.toNat % 2 ^ L := by
  have ha := a.isLt
  have hb := b.isLt
  have hpow : 2 ^ (L + L) = 2 ^ L * 2 ^ L := Nat.pow_add 2 L L
  have hab : a.toNat * b.toNat < 2 ^ L * 2 ^ L := Nat.mul_lt_mul'' ha hb
  have hLpos : 0 < 2 ^ L := Nat.two_pow_pos L
  have hLle : 2 ^ L ≤ 2 ^ (L + L) := Nat.pow_le_pow_right (by decide) (by omega)
  have hfull : (a.setWidth (L + L) * b.setWidth (L + L)).toNat = a.toNat * b.toNat := by
    rw [BitVec.toNat_mul, BitVec.toNat_setWidth, BitVec.toNat_setWidth,
      Nat.mod_eq_of_lt (Nat.lt_of_lt_of_le ha hLle), Nat.mod_eq_of_lt (Nat.lt_of_lt_of_le hb hLle), hpow, Nat.mod_eq_of_lt hab]
  constructor
  · show (((a.setWidth (L + L) * b.setWidth (L + L)) >>> L).setWidth L).toNat = _
    rw [BitVec.toNat_setWidth, BitVec.toNat_ushiftRight, hfull, Nat.shiftRight_eq_div_pow]
    apply Nat.mod_eq_of_lt
    exact Nat.div_lt_of_lt_mul hab
  · show (((a.setWidth (L + L) * b.setWidth (L + L)) &&& BitVec.ofNat (L + L) (2 ^ L - 1)).setWidth L).toNat = _
    rw [BitVec.toNat_setWidth, BitVec.toNat_and, hfull, BitVec.toNat_ofNat,
      Nat.mod_eq_of_lt (by omega : 2 ^ L - 1 < 2 ^ (L + L)), Nat.and_two_pow_sub_one_eq_mod, Nat.mod_mod]


/-- bit patterns as results -/
def liftR (N L : Nat) : Nat ⊕ Nat → Sum (BitVec N) (BitVec L)
  | .inl r => .inl (BitVec.ofNat N r)
  | .inr z => .inr (BitVec.ofNat L z)

theorem ofNat_beq_zero (L r : Nat) (hr : r < 2 ^ L) : (BitVec.ofNat L r == 0#L) = decide (r = 0) := by
  by_cases h : r = 0
  · subst h; simp
  · have : BitVec.ofNat L r ≠ 0#L := by
      intro e
      have := congrArg BitVec.toNat e
      rw [BitVec.toNat_ofNat, Nat.mod_eq_of_lt hr] at this
      exact h (by simpa using this)
    simp [h, this]

theorem ofNat_beq (L a b : Nat) (ha : a < 2 ^ L) (hb : b < 2 ^ L) : (BitVec.ofNat L a == BitVec.ofNat L b) = decide (a = b) := by
  by_cases h : a = b
  · subst h; simp
  · have : BitVec.ofNat L a ≠ BitVec.ofNat L b := by
      intro e
      have := congrArg BitVec.toNat e
      rw [BitVec.toNat_ofNat, BitVec.toNat_ofNat, Nat.mod_eq_of_lt ha, Nat.mod_eq_of_lt hb] at this
      exact h this
    simp [h, this]

/-- **one trip round the loop, on bit vectors, is the model's `iteration`** for every instantiation whose value type is not wider
than the word it draws, every stored `base`/`range`, every `zone` and every drawn word -/
theorem iterBV_model (t : IntTy) (hNL : t.bits ≤ t.wbits) (d : UniformInt) (hr : d.range < 2 ^ t.bits)
    (zone v : Nat) (hz : zone < 2 ^ t.wbits) (hv : v < 2 ^ t.wbits) :
    iterBV t.bits t.wbits (BitVec.ofNat t.bits d.base) (BitVec.ofNat t.wbits d.range) (BitVec.ofNat t.wbits zone) (BitVec.ofNat t.wbits v)
      = liftR t.bits t.wbits (UniformInt.iteration t d zone v) := by
  have hpow : 2 ^ t.bits ≤ 2 ^ t.wbits := Nat.pow_le_pow_right (by decide) hNL
  have hrL : d.range < 2 ^ t.wbits := Nat.lt_of_lt_of_le hr hpow
  have hvn : (BitVec.ofNat t.wbits v).toNat = v := by rw [BitVec.toNat_ofNat]; exact Nat.mod_eq_of_lt hv
  have hrn : (BitVec.ofNat t.wbits d.range).toNat = d.range := by rw [BitVec.toNat_ofNat]; exact Nat.mod_eq_of_lt hrL
  have hzn : (BitVec.ofNat t.wbits zone).toNat = zone := by rw [BitVec.toNat_ofNat]; exact Nat.mod_eq_of_lt hz
  obtain ⟨hm1, hm2⟩ := wmul_toNat t.wbits (BitVec.ofNat t.wbits v) (BitVec.ofNat t.wbits d.range)
  rw [hvn, hrn] at hm1 hm2
  -- the result of an accepting branch
  have hres : BitVec.ofNat t.bits d.base + (wmul t.wbits (BitVec.ofNat t.wbits v) (BitVec.ofNat t.wbits d.range)).1.setWidth t.bits
      = BitVec.ofNat t.bits (wadd t.M d.base (v * d.range / t.B % t.M)) := by
    apply BitVec.eq_of_toNat_eq
    rw [BitVec.toNat_add, BitVec.toNat_setWidth, hm1, BitVec.toNat_ofNat, BitVec.toNat_ofNat]
    simp only [wadd, IntTy.M, IntTy.B]
    rw [Nat.mod_mod, Nat.add_mod, Nat.mod_mod, ← Nat.add_mod]
  unfold iterBV UniformInt.iteration
  rw [ofNat_beq_zero _ _ hrL]
  by_cases h0 : d.range = 0
  · simp only [h0, decide_true, if_true, liftR]
    congr 1
    apply BitVec.eq_of_toNat_eq
    rw [BitVec.toNat_setWidth, hvn, BitVec.toNat_ofNat]
    simp [IntTy.M]
  · simp only [h0, decide_false, if_false, Bool.false_eq_true]
    have hge : ∀ z : Nat, z < 2 ^ t.wbits →
        (((wmul t.wbits (BitVec.ofNat t.wbits v) (BitVec.ofNat t.wbits d.range)).2 ≥ BitVec.ofNat t.wbits z) ↔ (v * d.range % t.B ≥ z)) := by
      intro z hzz
      show (BitVec.ofNat t.wbits z ≤ (wmul t.wbits (BitVec.ofNat t.wbits v) (BitVec.ofNat t.wbits d.range)).2) ↔ _
      rw [BitVec.le_def, hm2, BitVec.toNat_ofNat, Nat.mod_eq_of_lt hzz]
      simp [IntTy.B]
    by_cases h1 : v * d.range % t.B ≥ zone
    · rw [if_pos ((hge zone hz).mpr h1), if_pos h1, hres]
      rfl
    · rw [if_neg (fun h => h1 ((hge zone hz).mp h)), if_neg h1, ofNat_beq _ _ _ hz hrL]
      by_cases h2 : zone = d.range
      · simp only [h2, decide_true, if_true]
        have hzone' : (0#t.wbits - BitVec.ofNat t.wbits d.range) % BitVec.ofNat t.wbits d.range
            = BitVec.ofNat t.wbits ((t.B - d.range) % d.range) := by
          apply BitVec.eq_of_toNat_eq
          rw [BitVec.toNat_umod, BitVec.toNat_sub, hrn, BitVec.toNat_ofNat, BitVec.toNat_ofNat]
          simp only [IntTy.B, Nat.zero_mod, Nat.add_zero]
          have hpos : 0 < d.range := Nat.pos_of_ne_zero h0
          have hpp : 0 < 2 ^ t.wbits := Nat.two_pow_pos _
          rw [Nat.mod_eq_of_lt (by omega : 2 ^ t.wbits - d.range < 2 ^ t.wbits)]
          have : (2 ^ t.wbits - d.range) % d.range < 2 ^ t.wbits := Nat.lt_trans (Nat.mod_lt _ hpos) hrL
          rw [Nat.mod_eq_of_lt this]
        have hz' : (t.B - d.range) % d.range < 2 ^ t.wbits :=
          Nat.lt_trans (Nat.mod_lt _ (Nat.pos_of_ne_zero h0)) hrL
        rw [hzone']
        by_cases h3 : v * d.range % t.B ≥ (t.B - d.range) % d.range
        · rw [if_pos ((hge _ hz').mpr h3), if_pos h3, hres]
          rfl
        · rw [if_neg (fun h => h3 ((hge _ hz').mp h)), if_neg h3]
          rfl
      · simp only [h2, decide_false, if_false, Bool.false_eq_true]
        rfl

end Urandom.UniformIntT
