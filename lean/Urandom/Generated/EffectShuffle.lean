/- tools/extract_effect.py could not translate the current source: TranslateError: index: the body is not one expression -/
namespace Urandom.Generated.Effect
def translation_failed_EffectShuffle : Nat := translation_of_the_current_source_failed
end Urandom.Generated.Effect
