/- tools/extract_scalar.py could not translate the current source: TranslateError: statement ('loop', ('block', [('let', ('pid', 'state'), ('array', [('mcall', ('id', 'master'), 'next_u64', []), ('mcall', ('id', 'master'), 'next_u64', []), ('mcall', ('id', 'master'), 'next_u64', []), ('mcall', ('id', 'master'), 'next_u64', [])])), ('if', ('bin', '>=', ('call', 'weight', [('ref', False, ('id', 'state'))]), ('id', 'MIN_WEIGHT')), ('block', [('return', ('call', 'Random::wrap', [('struct', 'Xoshiro256', [('state', None)])]))], None), None)], None)) -/
namespace Urandom.Generated.Scalar
def translation_failed_Scalar : Nat := translation_of_the_current_source_failed
end Urandom.Generated.Scalar
