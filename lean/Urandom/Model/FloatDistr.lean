import Urandom.Model.Standard
/-
Model of the floating-point distributions: `src/distr/uniform/float.rs` (`UniformFloat`),
`src/distr/exp.rs`, `src/distr/normal.rs`, `src/distr/ziggurat.rs`.  Import-free.

All values are IEEE bit patterns (`Nat`); arithmetic is `Urandom.IEEE` (round to nearest even);
`ln` / `exp` (libm) are parameters (`Libm`), instantiated with the platform's libm in the driver
and constrained by explicit hypotheses in the theorems.  The ziggurat tables are parameters too
(`ZigTables`), instantiated with the tables translated from the source on every run.
-/
namespace Urandom.FD
open Urandom Urandom.IEEE

/-- libm as used by the crate: `f64::ln/exp`, `f32::ln/exp` -/
structure Libm where
  ln64 : Nat → Nat
  exp64 : Nat → Nat
  ln32 : Nat → Nat
  exp32 : Nat → Nat

def Libm.ln (m : Libm) (f : Fmt) : Nat → Nat := if f.mb = 52 then m.ln64 else m.ln32
def Libm.exp (m : Libm) (f : Fmt) : Nat → Nat := if f.mb = 52 then m.exp64 else m.exp32

/-- small integer constants -/
def c (f : Fmt) (n : Nat) : Nat := ofNat f n
def half (f : Fmt) : Nat := encode f (.fin false 1 (-1))

/-! ### UniformFloat -/

structure UniformFloat where
  base : Nat
  scale : Nat
deriving DecidableEq, Repr

/-- `try_new(low, high)`: `scale = high - low; base = low - scale`; the non-finite check exists only
under `debug_assertions` (`checked`) -/
def UniformFloat.tryNew (f : Fmt) (checked : Bool) (low high : Nat) : Except UniformError UniformFloat :=
  let scale := sub f high low
  let base := sub f low scale
  if checked ∧ ¬ (isFinite f base ∧ isFinite f scale) then .error .NonFinite
  else .ok ⟨base, scale⟩

/-- `sample`: `rand.next_f32() * self.scale + self.base` (two roundings) on the unit float `u ∈ [1,2)` -/
def UniformFloat.sampleU (f : Fmt) (d : UniformFloat) (u : Nat) : Nat := add f (mul f u d.scale) d.base

def UniformFloat.sample (f : Fmt) (d : UniformFloat) : Draw Nat := fun ws =>
  if f.mb = 52 then (Mock.f64 ws).map fun (u, ws') => (d.sampleU f u.toNat, ws')
  else (Mock.f32 ws).map fun (u, ws') => (d.sampleU f u.toNat, ws')

/-! ### the ziggurat -/

structure ZigTables where
  normX : Array Nat
  normF : Array Nat
  normR : Nat
  expX : Array Nat
  expF : Array Nat
  expR : Nat

/-- `into_float_with_exponent(bits, exp) = f64::from_bits(bits >> 12 | (1023 + exp) << 52)` -/
def intoFloat (bits : BitVec 64) (exp : Nat) : Nat := (bits.toNat >>> 12) ||| ((1023 + exp) <<< 52)

/-- `1.0 - f64::EPSILON / 2.0` -/
def oneMinusHalfEps : Nat := 0x3FEFFFFFFFFFFFFF

/-- what one ziggurat iteration decides after drawing `bits` (and, for the wedge test, a `Float01`) -/
inductive ZigStep where
  | ret (x : Nat)          -- rectangle or wedge accept
  | tail (u : Nat)         -- layer 0: `zero_case(rand, u)`
  | again                  -- wedge reject

/-- the part of an iteration before the wedge test: `(i, u, x, fast-accept?)` -/
def zigHead (symmetric : Bool) (xTab : Array Nat) (bits : BitVec 64) : Nat × Nat × Nat × Bool :=
  let i := bits.toNat % 256
  let u := if symmetric then sub b64 (intoFloat bits 1) (c b64 3)
           else sub b64 (intoFloat bits 0) oneMinusHalfEps
  let x := mul b64 u (xTab.getD i 0)
  let testX := if symmetric then abs b64 x else x
  (i, u, x, lt b64 testX (xTab.getD (i + 1) 0))

/-- `f_tab[i+1] + (f_tab[i] - f_tab[i+1]) * rand.float01() < pdf(x)` -/
def wedgeAccept (fTab : Array Nat) (i : Nat) (f01 pdfx : Nat) : Bool :=
  lt b64 (add b64 (fTab.getD (i + 1) 0) (mul b64 (sub b64 (fTab.getD i 0) (fTab.getD (i + 1) 0)) f01)) pdfx

/-- `StandardNormal`'s pdf: `(-x * x / 2.0).exp()` -/
def normPdf (m : Libm) (x : Nat) : Nat := m.exp64 (div b64 (mul b64 (neg b64 x) x) (c b64 2))
/-- `Exp1`'s pdf: `(-x).exp()` -/
def expPdf (m : Libm) (x : Nat) : Nat := m.exp64 (neg b64 x)

/-- the normal tail: `while -2.0 * y < x * x { x = ln(U₁) / R; y = ln(U₂) }`, then `±(R - x)`;
`(x, y)` start at `(1.0, 0.0)` -/
def normTailLoop (m : Libm) (R : Nat) (x y : Nat) : Draw (Nat × Nat)
  | w₁ :: w₂ :: w₃ :: w₄ :: rest =>
    if lt b64 (mul b64 (neg b64 (c b64 2)) y) (mul b64 x x) then
      normTailLoop m R (div b64 (m.ln64 (Float01.bits64 w₁ w₂)) R) (m.ln64 (Float01.bits64 w₃ w₄)) rest
    else some ((x, y), w₁ :: w₂ :: w₃ :: w₄ :: rest)
  | ws =>
    if lt b64 (mul b64 (neg b64 (c b64 2)) y) (mul b64 x x) then none   -- the `Mock` runs dry inside `float01()`
    else some ((x, y), ws)

def normTail (m : Libm) (R : Nat) (u : Nat) : Draw Nat := fun ws =>
  match normTailLoop m R (c b64 1) (c b64 0) ws with
  | none => none
  | some ((x, _), ws') => some (if lt b64 u (c b64 0) then sub b64 x R else sub b64 R x, ws')

/-- the exponential tail: `R - ln(U)` -/
def expTail (m : Libm) (R : Nat) : Draw Nat := fun ws =>
  match Float01.sample64 ws with
  | none => none
  | some (f, ws') => some (sub b64 R (m.ln64 f), ws')

/-- `ziggurat(rand, symmetric, x_tab, f_tab, pdf, zero_case)` -/
def ziggurat (symmetric : Bool) (xTab fTab : Array Nat) (pdf : Nat → Nat) (zeroCase : Nat → Draw Nat) : Draw Nat
  | [] => none
  | w :: ws =>
    let (i, u, x, fast) := zigHead symmetric xTab w
    if fast then some (x, ws)
    else if i = 0 then zeroCase u ws
    else
      match ws with
      | w₁ :: w₂ :: rest =>
        if wedgeAccept fTab i (Float01.bits64 w₁ w₂) (pdf x) then some (x, rest)
        else ziggurat symmetric xTab fTab pdf zeroCase rest
      | _ => none

/-- `StandardNormal` as `f64` -/
def stdNormal (m : Libm) (t : ZigTables) : Draw Nat :=
  ziggurat true t.normX t.normF (normPdf m) (normTail m t.normR)

/-- `Exp1` as `f64` -/
def exp1 (m : Libm) (t : ZigTables) : Draw Nat :=
  ziggurat false t.expX t.expF (expPdf m) (fun _ => expTail m t.expR)

/-- the `f32` variants sample in `f64` and convert (`x as f32`) -/
def narrow (f : Fmt) (x : Nat) : Nat := if f.mb = 52 then x else convert b64 f x

/-! ### Exp -/

inductive ExpError where
  | LambdaTooSmall
deriving DecidableEq, Repr

/-- `Exp::try_new(lambda)`: error unless `lambda >= 0.0`; stores `1.0 / lambda.abs()` (fix D3) -/
def Exp.tryNew (f : Fmt) (lambda : Nat) : Except ExpError Nat :=
  if ¬ ge f lambda (c f 0) then .error .LambdaTooSmall
  else .ok (div f (c f 1) (abs f lambda))

/-- `Exp::sample`: `Exp1.sample(rand) * self.lambda_inverse` -/
def Exp.sample (m : Libm) (t : ZigTables) (f : Fmt) (lambdaInv : Nat) : Draw Nat := fun ws =>
  (exp1 m t ws).map fun (x, ws') => (mul f (narrow f x) lambdaInv, ws')

/-! ### Normal / LogNormal -/

inductive NormalError where
  | MeanTooSmall | BadVariance
deriving DecidableEq, Repr

structure Normal where
  mean : Nat
  stdDev : Nat
deriving DecidableEq, Repr

def Normal.tryNew (f : Fmt) (mean stdDev : Nat) : Except NormalError Normal :=
  if ¬ isFinite f stdDev then .error .BadVariance else .ok ⟨mean, stdDev⟩

/-- `Normal::try_from_mean_cv`: `cv` finite and `>= 0`; the derived `std_dev = cv * mean` must be
finite too (fix D5) -/
def Normal.tryFromMeanCv (f : Fmt) (mean cv : Nat) : Except NormalError Normal :=
  if ¬ isFinite f cv ∨ lt f cv (c f 0) then .error .BadVariance
  else
    let sd := mul f cv mean
    if ¬ isFinite f sd then .error .BadVariance else .ok ⟨mean, sd⟩

/-- `from_zscore`: `self.std_dev.mul_add(zscore, self.mean)` -/
def Normal.fromZscore (f : Fmt) (d : Normal) (z : Nat) : Nat := fma f d.stdDev z d.mean

def Normal.sample (m : Libm) (t : ZigTables) (f : Fmt) (d : Normal) : Draw Nat := fun ws =>
  (stdNormal m t ws).map fun (z, ws') => (d.fromZscore f (narrow f z), ws')

def LogNormal.tryNew (f : Fmt) (mu sigma : Nat) : Except NormalError Normal := Normal.tryNew f mu sigma

/-- `LogNormal::try_from_mean_cv` (after fix D4 the `cv == 0` shortcut checks the mean too) -/
def LogNormal.tryFromMeanCv (m : Libm) (f : Fmt) (mean cv : Nat) : Except NormalError Normal :=
  if eq f cv (c f 0) then
    if ¬ ge f mean (c f 0) then .error .MeanTooSmall
    else Normal.tryNew f (m.ln f mean) (c f 0)
  else if ¬ gt f mean (c f 0) then .error .MeanTooSmall
  else if ¬ ge f cv (c f 0) then .error .BadVariance
  else
    let a := add f (c f 1) (mul f cv cv)
    let mu := mul f (half f) (m.ln f (div f (mul f mean mean) a))
    let sigma := sqrt f (m.ln f a)
    Normal.tryNew f mu sigma

def LogNormal.fromZscore (m : Libm) (f : Fmt) (d : Normal) (z : Nat) : Nat := m.exp f (d.fromZscore f z)

def LogNormal.sample (m : Libm) (t : ZigTables) (f : Fmt) (d : Normal) : Draw Nat := fun ws =>
  (Normal.sample m t f d ws).map fun (x, ws') => (m.exp f x, ws')

end Urandom.FD
