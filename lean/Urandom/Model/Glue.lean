/-
The vocabulary the glue translator (`tools/extract_glue.py`) targets.  The forwarding layer of the crate - `Random<R>`'s one-line methods,
the default methods of the `Rng` trait, the typed wrappers of `rng::util`, `Uniform<T>` around its sampler, `Samples`, `Map`, the `&D`
blanket impl, the `Rng` impls that hand a call on to an inner object - is translated statement by statement into Lean `do` blocks over an
arbitrary monad `m`: the order of effects is the order of evaluation of the Rust text.  A value of a type `R : Rng` is the record of its six
methods as computations in `m` (plus `clone`: a snapshot of the object), a distribution is its `sample`, a slice its length and its indexing
function.  Import-free.
-/
namespace Urandom.Glue

/-- a value of a type `R : Rng + Clone` with state type `σ`: its methods as computations.  Floats are their bit patterns; the argument of
`fill_bytes` is the length of the destination in bytes (`usize`). -/
structure Rng (m : Type → Type) (σ : Type) where
  next_u32 : m (BitVec 32)
  next_u64 : m (BitVec 64)
  next_f32 : m (BitVec 32)
  next_f64 : m (BitVec 64)
  fill_bytes : BitVec 64 → m Unit
  jump : m Unit
  clone : m σ

/-- a value of a type `D : Distribution<T>`: `sample(&self, rand)` -/
structure Dist (m : Type → Type) (σ : Type) (T : Type) where
  sample : Rng m σ → m T

/-- a type `S : UniformSampler<T>`: the two fallible constructors and `sample` -/
structure Sampler (m : Type → Type) (σ : Type) (T S ε : Type) where
  try_new : T → T → Except ε S
  try_new_inclusive : T → T → Except ε S
  dist : S → Dist m σ T

/-- `&[T]` / `&mut [T]`: `len()` and `get(i)` / `get_mut(i)` -/
structure Slice (T : Type) where
  len : BitVec 64
  get : BitVec 64 → Option T

def Slice.get_mut {T : Type} (s : Slice T) : BitVec 64 → Option T := s.get

/-- `ops::Range<T>`, `ops::RangeInclusive<T>`, the transparent wrappers `Uniform<T>` (around `T::Sampler`) and `num::Wrapping<T>`, `Map` -/
structure Range (T : Type) where
  start : T
  end_ : T
structure RangeInclusive (T : Type) where
  into_inner : T × T
structure Uniform (S : Type) where
  sampler : S
structure Wrapping (T : Type) where
  val : T
structure Map (m : Type → Type) (σ : Type) (T U : Type) where
  distr : Dist m σ T
  f : T → U

/-- a destination of plain-old-data elements as the typed byte wrappers see it: `mem::size_of_val(buf)` -/
structure Pod where
  size_of_val : BitVec 64
  len : BitVec 64 := 1

/-- `slice::from_raw_parts_mut(buf.as_mut_ptr() as *mut MaybeUninit<u8>, n)`: the `n` bytes at the address of `buf` (the translator checks that
the pointer IS `buf.as_mut_ptr()` cast to a byte pointer) -/
def from_raw_parts_mut (_buf : Pod) (n : BitVec 64) : BitVec 64 := n

/-- `MaybeUninit::<T>::uninit()` for a `T` of `size` bytes, and `slice::from_mut(&mut value)`: the one-element slice over it -/
def uninit (size : BitVec 64) : Pod := { size_of_val := size }
def from_mut (value : Pod) : Pod := value
/-- `value.assume_init()` -/
def Pod.assume_init (value : Pod) : Pod := value

/-- `for elem in buf { *elem = <body>; }` over a destination of `n` elements: the values stored, in slice order -/
def forEachSlot {m : Type → Type} [Monad m] {T : Type} : Nat → m T → m (List T)
  | 0, _ => pure []
  | n + 1, body => do
    let x ← body
    let xs ← forEachSlot n body
    pure (x :: xs)

/-- a monad in which a computation can panic (`panic!`, `unwrap` of an `Err`) -/
class Panics (m : Type → Type) where
  panic : {α : Type} → m α

instance {σ : Type} : Panics (StateT σ Option) := ⟨fun _ => none⟩

/-- `Result::unwrap`: `Err` panics -/
def unwrap {m : Type → Type} [Monad m] [Panics m] {ε α : Type} : Except ε α → m α
  | .ok a => pure a
  | .error _ => Panics.panic

/-- `Result::map` -/
def mapOk {ε α β : Type} (f : α → β) : Except ε α → Except ε β
  | .ok a => .ok (f a)
  | .error e => .error e

/-- `loop { if let Some(x) = <f>(<body>) { break x; } }` with fuel: `none` when the fuel runs out -/
def loopUntilSome {m : Type → Type} [Monad m] {A B : Type} (f : A → Option B) (body : m A) : Nat → m (Option B)
  | 0 => pure none
  | fuel + 1 => do
    let a ← body
    match f a with
    | some b => pure (some b)
    | none => loopUntilSome f body fuel

end Urandom.Glue
