import Urandom.Model.Draw
/-
Model of `src/distr/uniform/int.rs` (`UniformInt<T>`), `Random::range` / `Random::index` on
integers and `src/distr/dice.rs`.

Integer values of a `b`-bit type are represented by their bit patterns `x < 2^b` (`Nat`);
`IntTy.toInt` gives the typed value.  All wrapping operations are explicit `% 2^b`.
-/
namespace Urandom

/-- One instantiation of `impl_uniform_int!`: value bits, bits of the `$large` word type that is
drawn (`u32`/`next_u32` or `u64`/`next_u64`), signedness. -/
structure IntTy where
  bits : Nat
  wbits : Nat
  signed : Bool
deriving DecidableEq, Repr

namespace IntTy
def M (t : IntTy) : Nat := 2 ^ t.bits
def B (t : IntTy) : Nat := 2 ^ t.wbits

/-- typed value of a bit pattern -/
def toInt (t : IntTy) (x : Nat) : Int :=
  if t.signed then (if 2 * x < t.M then (x : Int) else (x : Int) - t.M) else (x : Int)

/-- bit pattern of a typed value -/
def ofInt (t : IntTy) (v : Int) : Nat := (v % (t.M : Int)).toNat

def i8 : IntTy := ⟨8, 32, true⟩
def u8 : IntTy := ⟨8, 32, false⟩
def i16 : IntTy := ⟨16, 32, true⟩
def u16 : IntTy := ⟨16, 32, false⟩
def i32 : IntTy := ⟨32, 64, true⟩
def u32 : IntTy := ⟨32, 64, false⟩
def i64 : IntTy := ⟨64, 64, true⟩
def u64 : IntTy := ⟨64, 64, false⟩
/-- 64-bit targets (`#[cfg(target_pointer_width = "64")]`) -/
def isize : IntTy := ⟨64, 64, true⟩
def usize : IntTy := ⟨64, 64, false⟩
/-- 32-bit targets: `impl_uniform_int! { isize, u32, u64, next_u64, wmul64 }` (modelled, not exercised) -/
def isize32 : IntTy := ⟨32, 64, true⟩
def usize32 : IntTy := ⟨32, 64, false⟩
end IntTy

/-- `high.wrapping_sub(low)` on `M = 2^b` patterns -/
def wsub (M hi lo : Nat) : Nat := (hi + M - lo) % M
/-- `a.wrapping_add(b)` -/
def wadd (M a b : Nat) : Nat := (a + b) % M

/-- the stored fields; `range` is "really an unsigned integer of the same size" -/
structure UniformInt where
  base : Nat
  range : Nat
deriving DecidableEq, Repr

inductive UniformError where
  | EmptyRange | NonFinite
deriving DecidableEq, Repr

namespace UniformInt

/-- `try_new` (exclusive) / `try_new_inclusive` on bit patterns `lo hi < 2^b`. -/
def tryNew (t : IntTy) (lo hi : Nat) (incl : Bool) : Except UniformError UniformInt :=
  if incl then
    if t.toInt lo > t.toInt hi then .error .EmptyRange
    else .ok ⟨lo, wadd t.M (wsub t.M hi lo) 1⟩
  else
    if t.toInt lo ≥ t.toInt hi then .error .EmptyRange
    else .ok ⟨lo, wsub t.M hi lo⟩

/-- What one loop iteration does with the drawn word value `v < 2^L` under the current `zone`:
`inl result` = break with that bit pattern, `inr zone'` = continue with the (possibly updated) zone. -/
def iteration (t : IntTy) (d : UniformInt) (zone v : Nat) : Nat ⊕ Nat :=
  if d.range = 0 then .inl (v % t.M)                      -- `break value as $ty`
  else
    let full := v * d.range                                -- `$wmul(value, range)`
    let msw := full / t.B
    let lsw := full % t.B
    if lsw ≥ zone then .inl (wadd t.M d.base (msw % t.M))  -- `self.base.wrapping_add(msw as $ty)`
    else if zone = d.range then
      let zone' := (t.B - d.range) % d.range               -- `<$large>::wrapping_sub(0, range) % range`
      if lsw ≥ zone' then .inl (wadd t.M d.base (msw % t.M)) else .inr zone'
    else .inr zone

/-- the word the loop draws: `next_u32()` or `next_u64()` of the `Mock` -/
def wordValue (t : IntTy) (w : BitVec 64) : Nat := w.toNat % t.B

/-- `sample`'s loop, from a given `zone`, over the scripted words. -/
def sampleLoop (t : IntTy) (d : UniformInt) (zone : Nat) : Draw Nat
  | [] => none
  | w :: ws =>
    match iteration t d zone (wordValue t w) with
    | .inl r => some (r, ws)
    | .inr zone' => sampleLoop t d zone' ws

/-- `Distribution::sample`: `let mut zone = range; loop { … }` -/
def sample (t : IntTy) (d : UniformInt) : Draw Nat := sampleLoop t d d.range

end UniformInt

/-- `Random::index(len)`: `UniformInt::constant(0, len).sample(self)` on `usize`. -/
def index (len : Nat) : Draw Nat := UniformInt.sample IntTy.usize ⟨0, len⟩

/-- `Dice`: `UniformInt<u8>`; `new(n)` = `try_new_inclusive(1, n).unwrap()`, the constants are
`UniformInt::constant(1, n)`; the sample is widened to `i32`. -/
def Dice.new (n : Nat) : Except UniformError UniformInt := UniformInt.tryNew IntTy.u8 1 n true
def Dice.const (n : Nat) : UniformInt := ⟨1, n⟩
def Dice.sample (d : UniformInt) : Draw Nat := UniformInt.sample IntTy.u8 d

end Urandom
