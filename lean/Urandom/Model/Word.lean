/-
Model of the word-based generators of CasualX/urandom
(`src/rng/splitmix64.rs`, `src/rng/xoshiro256.rs`, `src/rng/wyrand.rs`,
`src/rng/util.rs`).  Import-free: the same definitions are compiled into the
line-protocol driver (`Main.lean`) and are what the theorems talk about.

Conventions: a `&mut self` method is a function returning `(output, newState)`;
`u64`/`u32` are `BitVec 64`/`BitVec 32` (wrapping arithmetic is `BitVec`
arithmetic); floats are represented by their bit patterns.
-/
namespace Urandom

abbrev Byte := BitVec 8

/-! ### `util.rs` -/

/-- `rng_f32(seed) = f32::from_bits(127 << 23 | seed >> 9)` (bit pattern). -/
def rngF32 (w : BitVec 32) : BitVec 32 := (127#32 <<< 23) ||| (w >>> 9)

/-- `rng_f64(seed) = f64::from_bits(1023 << 52 | seed >> 12)` (bit pattern). -/
def rngF64 (w : BitVec 64) : BitVec 64 := (1023#64 <<< 52) ||| (w >>> 12)

/-- the first `n` bytes of `v.to_le_bytes()` -/
def leBytes (v : BitVec 64) (n : Nat) : List Byte :=
  (List.range n).map fun i => (v >>> (8 * i)).setWidth 8

/-- One raw store performed by a fill routine: `data` is written at `off`. -/
structure Write where
  off : Nat
  data : List Byte
deriving Repr, DecidableEq

/-- The interface a word generator offers to `rng_fill_bytes` and to the op interpreter. -/
structure WordGen (σ : Type) where
  u32 : σ → BitVec 32 × σ
  u64 : σ → BitVec 64 × σ
  f32 : σ → BitVec 32 × σ
  f64 : σ → BitVec 64 × σ
  jump : σ → σ

/-- The tail of `rng_fill_bytes`: `0 < len < 8` bytes are left, one more word `v` was drawn.
Returns the writes (4-, 2-, 1-byte stores as coded). -/
def fillTail (v : BitVec 64) (off len : Nat) : List Write :=
  -- `(value as u32).to_le_bytes()` are the low four bytes of `value`, etc.
  let (w4, off, len, v) :=
    if len ≥ 4 then ([Write.mk off (leBytes v 4)], off + 4, len - 4, v >>> 32)
    else ([], off, len, v)
  let (w2, off, len, v) :=
    if len ≥ 2 then ([Write.mk off (leBytes v 2)], off + 2, len - 2, v >>> 16)
    else ([], off, len, v)
  let w1 := if len ≥ 1 then [Write.mk off (leBytes v 1)] else []
  w4 ++ w2 ++ w1

/-- `util::rng_fill_bytes` as a write log: the `while len >= 8` loop followed by the tail. -/
def rngFillWrites {σ : Type} (g : WordGen σ) (s : σ) (off len : Nat) : List Write × σ :=
  if h : len ≥ 8 then
    let (v, s') := g.u64 s
    let (ws, s'') := rngFillWrites g s' (off + 8) (len - 8)
    (Write.mk off (leBytes v 8) :: ws, s'')
  else if len > 0 then
    let (v, s') := g.u64 s
    (fillTail v off len, s')
  else ([], s)
termination_by len
decreasing_by omega

/-- Apply a write log to a destination buffer (writes outside the buffer are *recorded* by
extending nothing: they are dropped here and separately detected by `Write` bounds theorems
and by the driver, which prints the raw log). -/
def applyWrite (buf : List Byte) (w : Write) : List Byte :=
  buf.take w.off ++ (w.data.take (buf.length - w.off)) ++ buf.drop (w.off + w.data.length)

def applyWrites (buf : List Byte) (ws : List Write) : List Byte := ws.foldl applyWrite buf

/-- The bytes a generator's `fill_bytes(len)` leaves in a fresh destination. The three word
generators implement `fill_bytes` as clone / `rng_fill_bytes` / write-back, i.e. by threading
the state. -/
def fillBytes {σ : Type} (g : WordGen σ) (s : σ) (len : Nat) : List Byte × σ :=
  let (ws, s') := rngFillWrites g s 0 len
  (applyWrites (List.replicate len 0#8) ws, s')

/-! ### SplitMix64 (`splitmix64.rs`) -/
namespace SplitMix

def GAMMA : BitVec 64 := 0x9e3779b97f4a7c15#64

def xs (k : Nat) (z : BitVec 64) : BitVec 64 := z ^^^ (z >>> k)

def mix64 (z : BitVec 64) : BitVec 64 :=
  let z := xs 30 z * 0xbf58476d1ce4e5b9#64
  let z := xs 27 z * 0x94d049bb133111eb#64
  xs 31 z

/-- `next(x)`: `*x = x.wrapping_add(GOLDEN_GAMMA); mix64(*x)` -/
def next (x : BitVec 64) : BitVec 64 × BitVec 64 := (mix64 (x + GAMMA), x + GAMMA)

def jump (x : BitVec 64) : BitVec 64 := x + (GAMMA <<< 40)

def fromSeed (seed : BitVec 64) : BitVec 64 := seed

def gen : WordGen (BitVec 64) where
  u64 s := next s
  u32 s := let (v, s') := next s; ((v >>> 32).setWidth 32, s')
  f32 s := let (v, s') := next s; (rngF32 ((v >>> 32).setWidth 32), s')
  f64 s := let (v, s') := next s; (rngF64 v, s')
  jump := jump

end SplitMix

/-! ### Xoshiro256 (`xoshiro256.rs`) -/
namespace Xoshiro

structure S where
  s0 : BitVec 64
  s1 : BitVec 64
  s2 : BitVec 64
  s3 : BitVec 64
deriving DecidableEq, Repr

/-- `advance` with the two literal amounts as parameters (17, 45 in the code). -/
def advanceK (k r : Nat) (s : S) : S :=
  let t := s.s1 <<< k
  let s2 := s.s2 ^^^ s.s0
  let s3 := s.s3 ^^^ s.s1
  let s1 := s.s1 ^^^ s2
  let s0 := s.s0 ^^^ s3
  let s2 := s2 ^^^ t
  let s3 := s3.rotateLeft r
  ⟨s0, s1, s2, s3⟩

def advance (s : S) : S := advanceK 17 45 s

def outPlusPlus (s : S) : BitVec 64 := (s.s0 + s.s3).rotateLeft 23 + s.s0
def outPlus (s : S) : BitVec 64 := s.s0 + s.s3

def nextPlusPlus (s : S) : BitVec 64 × S := (outPlusPlus s, advance s)
def nextPlus (s : S) : BitVec 64 × S := (outPlus s, advance s)

def JUMPW : List (BitVec 64) :=
  [0x180ec6d33cfd0aba#64, 0xd5a61266f0c9392c#64, 0xa9582618e03fc9aa#64, 0x39abdc4529b1661c#64]

def xorS (a b : S) : S := ⟨a.s0 ^^^ b.s0, a.s1 ^^^ b.s1, a.s2 ^^^ b.s2, a.s3 ^^^ b.s3⟩
def zeroS : S := ⟨0#64, 0#64, 0#64, 0#64⟩

/-- one inner iteration of the code's `jump`: bit `b` of word `w`; state `(cur, acc)` -/
def jumpBit (w : BitVec 64) (b : Nat) (st : S × S) : S × S :=
  let (cur, acc) := st
  ((advance cur), if w &&& (1#64 <<< b) != 0 then xorS acc cur else acc)

/-- `for b in 0..64` (`n` iterations left, current bit `b`) -/
def jumpWord (w : BitVec 64) : Nat → Nat → S × S → S × S
  | 0, _, st => st
  | n+1, b, st => jumpWord w n (b+1) (jumpBit w b st)

/-- the code: `for i in 0..4 { for b in 0..64 { … } }`, the result is the accumulator -/
def jump (s : S) : S :=
  (JUMPW.foldl (fun st w => jumpWord w 64 0 st) (s, zeroS)).2

/-- `from_seed`: four successive SplitMix64 outputs. -/
def fromSeed (seed : BitVec 64) : S :=
  let (a, x) := SplitMix.next (SplitMix.fromSeed seed)
  let (b, x) := SplitMix.next x
  let (c, x) := SplitMix.next x
  let (d, _) := SplitMix.next x
  ⟨a, b, c, d⟩

def gen : WordGen S where
  u64 s := nextPlusPlus s
  u32 s := let (v, s') := nextPlus s; ((v >>> 32).setWidth 32, s')
  f32 s := let (v, s') := nextPlus s; (rngF32 ((v >>> 32).setWidth 32), s')
  f64 s := let (v, s') := nextPlus s; (rngF64 v, s')
  jump := jump

end Xoshiro

/-! ### Wyrand (`wyrand.rs`) -/
namespace Wyrand

def P0 : BitVec 64 := 0x2d358dccaa6c78a5#64
def P1 : BitVec 64 := 0x8bb84b93962eacc9#64

/-- `rapid_mum`: the 128-bit product, `(low, high)` -/
def rapidMum (a b : BitVec 64) : BitVec 64 × BitVec 64 :=
  let r : BitVec 128 := a.setWidth 128 * b.setWidth 128
  (r.setWidth 64, (r >>> 64).setWidth 64)

def rapidMix (a b : BitVec 64) : BitVec 64 :=
  let (lo, hi) := rapidMum a b
  lo ^^^ hi

def next (seed : BitVec 64) : BitVec 64 × BitVec 64 :=
  let s := seed + P0
  (rapidMix (s ^^^ P1) s, s)

def jump (seed : BitVec 64) : BitVec 64 := seed + (P0 <<< 40)

def fromSeed (seed : BitVec 64) : BitVec 64 := seed

def gen : WordGen (BitVec 64) where
  u64 s := next s
  u32 s := let (v, s') := next s; ((v >>> 32).setWidth 32, s')
  f32 s := let (v, s') := next s; (rngF32 ((v >>> 32).setWidth 32), s')
  f64 s := let (v, s') := next s; (rngF64 v, s')
  jump := jump

end Wyrand

/-! ### Operation histories -/

inductive Op where
  | u32 | u64 | f32 | f64
  | fill (n : Nat)
  | jump
  /-- `let c = rand.clone()`: two 64-bit draws are then taken from the clone (and reported);
      the original continues. -/
  | clone
  /-- `let child = rand.split()`: one 64-bit draw is taken from the child; the parent continues. -/
  | split
deriving Repr, DecidableEq

inductive Out where
  | w32 (v : BitVec 32)
  | w64 (v : BitVec 64)
  | f32 (bits : BitVec 32)
  | f64 (bits : BitVec 64)
  | bytes (l : List Byte)
  | unit
  | cloned (a b : BitVec 64)
  | child (a : BitVec 64)
deriving Repr, DecidableEq

def WordGen.step {σ : Type} (g : WordGen σ) (s : σ) : Op → Out × σ
  | .u32 => let (v, s') := g.u32 s; (.w32 v, s')
  | .u64 => let (v, s') := g.u64 s; (.w64 v, s')
  | .f32 => let (v, s') := g.f32 s; (.f32 v, s')
  | .f64 => let (v, s') := g.f64 s; (.f64 v, s')
  | .fill n => let (b, s') := fillBytes g s n; (.bytes b, s')
  | .jump => (.unit, g.jump s)
  | .clone =>
      let (a, c) := g.u64 s
      let (b, _) := g.u64 c
      (.cloned a b, s)
  | .split =>
      -- `split`: `let cur = self.clone(); self.rng.jump(); return cur`
      let (a, _) := g.u64 s
      (.child a, g.jump s)

def WordGen.run {σ : Type} (g : WordGen σ) (s : σ) : List Op → List Out × σ
  | [] => ([], s)
  | op :: ops =>
      let (o, s') := g.step s op
      let (os, s'') := g.run s' ops
      (o :: os, s'')

end Urandom
