import Urandom.Model.Word
/-
The generator as seen by the distributions and by `Random`'s algorithms: a source of words.
The harness drives this code through `Mock::slice(words)`, so the model is the `Mock` generator:
`next_u64` pops the next word, `next_u32` pops a word and truncates it (`as u32`), the float
methods are the trait defaults, and running out of words is a panic (`none`).
-/
namespace Urandom

abbrev Words := List (BitVec 64)

/-- A computation that consumes scripted words; `none` = the `Mock` ran dry (panic). -/
abbrev Draw (α : Type) := Words → Option (α × Words)

namespace Mock

def u64 : Draw (BitVec 64)
  | [] => none
  | w :: ws => some (w, ws)

def u32 : Draw (BitVec 32)
  | [] => none
  | w :: ws => some (w.setWidth 32, ws)

/-- default `next_f32`: `rng_f32(self.next_u32())` -/
def f32 : Draw (BitVec 32)
  | [] => none
  | w :: ws => some (rngF32 (w.setWidth 32), ws)

/-- default `next_f64`: `rng_f64(self.next_u64())` -/
def f64 : Draw (BitVec 64)
  | [] => none
  | w :: ws => some (rngF64 w, ws)

end Mock

end Urandom
