import Urandom.Model.UniformInt
import Urandom.Model.IEEE
/-
Model of `src/distr/standard.rs` (`StandardUniform`), `src/distr/alnum.rs`,
`src/distr/float01.rs` and `src/distr/bernoulli.rs` (`Random::chance`, `coin_flip`).
-/
namespace Urandom

/-- `u64::leading_zeros` -/
def clz64 (w : BitVec 64) : Nat := if w.toNat = 0 then 64 else 63 - w.toNat.log2

namespace Float01

/-- `Float01` as `f64`: `exp = 1022 - next_u64().leading_zeros(); replace_exponent_f64(next_f64(), exp)` -/
def bits64 (w₁ w₂ : BitVec 64) : Nat :=
  let exp := 1022 - clz64 w₁
  let mantissa := (rngF64 w₂).toNat % 2 ^ 52
  exp * 2 ^ 52 + mantissa          -- `(exp as u64) << 52 | mantissa`

/-- `Float01` as `f32`: the exponent comes from a 64-bit draw, the mantissa from `next_f32` -/
def bits32 (w₁ w₂ : BitVec 64) : Nat :=
  let exp := 126 - clz64 w₁
  let mantissa := (rngF32 (w₂.setWidth 32)).toNat % 2 ^ 23
  exp * 2 ^ 23 + mantissa

def sample64 : Draw Nat
  | w₁ :: w₂ :: ws => some (bits64 w₁ w₂, ws)
  | _ => none

def sample32 : Draw Nat
  | w₁ :: w₂ :: ws => some (bits32 w₁ w₂, ws)
  | _ => none

end Float01

/-- `Bernoulli::sample`: `Float01.sample(rand) <= self.p` (IEEE comparison on `f64`);
`Random::chance(p)` is `Bernoulli::new(p).sample(self)`. -/
def bernoulli (p : Nat) : Draw Bool := fun ws =>
  match Float01.sample64 ws with
  | none => none
  | some (x, ws') => some (IEEE.le IEEE.b64 x p, ws')

namespace Standard

/-- the non-compound target types of `StandardUniform` -/
inductive Prim where
  | bool
  | int (bits : Nat) (signed : Bool)   -- 8, 16, 32 (one `next_u32`); 64 (one `next_u64`); 128 (two)
  | f32 | f64
  | char
  | nz (bits : Nat)                    -- NonZeroU8 … NonZeroU128, NonZeroUsize (= 64)
deriving DecidableEq, Repr

/-- plain integer sample: a truncating cast of one 32- or 64-bit word; 128 bits: two words, low first -/
def intSample (bits : Nat) : Draw Nat
  | ws =>
    if bits ≤ 32 then
      match Mock.u32 ws with
      | none => none
      | some (w, ws') => some (w.toNat % 2 ^ bits, ws')
    else if bits ≤ 64 then
      match Mock.u64 ws with
      | none => none
      | some (w, ws') => some (w.toNat % 2 ^ bits, ws')
    else
      match ws with
      | lo :: hi :: ws' => some (lo.toNat ||| (hi.toNat <<< 64), ws')
      | _ => none

def GAP_SIZE : Nat := 0xE000 - 0xD800

/-- the code point computed by the `char` sampler from the uniform draw `n ∈ [GAP_SIZE, 0x110000)` -/
def charOf (n : Nat) : Nat := if n < 0xE000 then n - GAP_SIZE else n

def isScalar (c : Nat) : Prop := c < 0xD800 ∨ (0xE000 ≤ c ∧ c < 0x110000)
instance (c : Nat) : Decidable (isScalar c) := by unfold isScalar; infer_instance

/-- `char`: `Uniform::new(GAP_SIZE, 0x11_0000)` on `u32`, gap removed; `char::from_u32(n).unwrap()`
in debug builds (`checked = true`) panics on a non-scalar, release builds convert unchecked. -/
def charSample (checked : Bool) : Draw Nat := fun ws =>
  match UniformInt.tryNew IntTy.u32 GAP_SIZE 0x110000 false with
  | .error _ => none
  | .ok d =>
    match UniformInt.sample IntTy.u32 d ws with
    | none => none
    | some (n, ws') =>
      let c := charOf n
      if checked ∧ ¬ isScalar c then none else some (c, ws')

/-- `NonZero*`: `loop { if let Some(nz) = NonZero::new(rand.next()) { break nz } }` -/
def nzSample (bits : Nat) : Draw Nat
  | [] => none
  | w :: ws =>
    match intSample bits (w :: ws) with
    | none => none
    | some (v, ws') =>
      if v ≠ 0 then some (v, ws')
      else nzSample bits ws          -- `ws'` is a suffix of `ws`; for 128 bits two words were used
termination_by ws => ws.length

/-- for 128-bit NonZero a zero sample consumed two words -/
def nzSample128 : Draw Nat
  | lo :: hi :: ws =>
    let v := lo.toNat ||| (hi.toNat <<< 64)
    if v ≠ 0 then some (v, ws) else nzSample128 ws
  | _ => none

def primSample (checked : Bool) : Prim → Draw Nat
  | .bool => fun ws =>
      match Mock.u32 ws with
      | none => none
      | some (w, ws') => some (if w.toNat ≥ 2 ^ 31 then 1 else 0, ws')   -- `(next_u32() as i32) < 0`
  | .int bits _ => intSample bits
  | .f32 => fun ws => (Mock.f32 ws).map fun (b, ws') => (b.toNat, ws')
  | .f64 => fun ws => (Mock.f64 ws).map fun (b, ws') => (b.toNat, ws')
  | .char => charSample checked
  | .nz bits => if bits > 64 then nzSample128 else nzSample bits

/-- tuples and arrays: the components are sampled left to right from consecutive draws -/
def seqSample (checked : Bool) : List Prim → Draw (List Nat)
  | [], ws => some ([], ws)
  | p :: ps, ws =>
    match primSample checked p ws with
    | none => none
    | some (v, ws') =>
      match seqSample checked ps ws' with
      | none => none
      | some (vs, ws'') => some (v :: vs, ws'')

end Standard

namespace Alnum

def table : List Char := "0123456789ABCDEFGHIJKLMNOPQRSTUVWXYZabcdefghijklmnopqrstuvwxyz".toList

/-- `loop { let value = next_u32() >> (32 - 6); if value < 62 { break ALNUM[value] } }` -/
def sample : Draw Char
  | [] => none
  | w :: ws =>
    let value := (w.setWidth 32).toNat >>> 26
    if h : value < table.length then some (table[value], ws) else sample ws

end Alnum

end Urandom
