/-
An executable, kernel-transparent model of IEEE-754 binary32 / binary64 arithmetic with
round-to-nearest-even, on bit patterns (`Nat`).  Import-free.

Design: bit patterns are *decoded* to `Val` (`nan | inf s | fin s m e`, the finite value being
`(-1)^s · m · 2^e` exactly); the arithmetic operations are **exact** on `Val` (a product, sum or
fused multiply-add of dyadic numbers is a dyadic number); rounding happens once, in `round`, and
`toBits` re-encodes.  Division and square root produce a truncated quotient/root plus a sticky
flag.  So "the result is NaN only if …", sign and finiteness lemmas are one case split on the
exact operation and a lemma about `round`.

Validated (not proved) against the hardware: correspondence stream `fp` (driver vs native
`Float`, harness vs Rust) - see DESIGN.md 2.4 and 3.
-/
namespace Urandom.IEEE

/-- format: `eb` exponent bits, `mb` stored mantissa bits -/
structure Fmt where
  eb : Nat
  mb : Nat
deriving DecidableEq, Repr

def b64 : Fmt := ⟨11, 52⟩
def b32 : Fmt := ⟨8, 23⟩

namespace Fmt
def bias (f : Fmt) : Nat := 2 ^ (f.eb - 1) - 1
/-- the all-ones exponent field -/
def emaxField (f : Fmt) : Nat := 2 ^ f.eb - 1
/-- exponent of the least significant bit of subnormals and of the smallest normals -/
def emin (f : Fmt) : Int := 1 - (f.bias : Int) - f.mb
def width (f : Fmt) : Nat := 1 + f.eb + f.mb
end Fmt

/-- decoded value; `fin s m e` is `(-1)^s · m · 2^e` (`m = 0`: a signed zero) -/
inductive Val where
  | nan
  | inf (s : Bool)
  | fin (s : Bool) (m : Nat) (e : Int)
deriving DecidableEq, Repr

namespace Val
def isNaN : Val → Bool | .nan => true | _ => false
def isInf : Val → Bool | .inf _ => true | _ => false
def isZero : Val → Bool | .fin _ 0 _ => true | _ => false
def isFinite : Val → Bool | .fin .. => true | _ => false
/-- sign bit (false for NaN: the sign of a NaN is not observable through the model) -/
def sign : Val → Bool | .nan => false | .inf s => s | .fin s _ _ => s

def neg : Val → Val
  | .nan => .nan
  | .inf s => .inf (!s)
  | .fin s m e => .fin (!s) m e

def abs : Val → Val
  | .nan => .nan
  | .inf _ => .inf false
  | .fin _ m e => .fin false m e

/-- exact product -/
def mulE : Val → Val → Val
  | .nan, _ | _, .nan => .nan
  | .inf s, .inf t => .inf (s != t)
  | .inf s, .fin t m _ => if m = 0 then .nan else .inf (s != t)
  | .fin t m _, .inf s => if m = 0 then .nan else .inf (t != s)
  | .fin s m e, .fin t n g => .fin (s != t) (m * n) (e + g)

/-- exact sum of two finite values (sign/magnitude at the smaller exponent) -/
def addFin (s : Bool) (m : Nat) (e : Int) (t : Bool) (n : Nat) (g : Int) : Val :=
  let e0 := min e g
  let m' : Int := (if s then -1 else 1) * ((m <<< (e - e0).toNat : Nat) : Int)
  let n' : Int := (if t then -1 else 1) * ((n <<< (g - e0).toNat : Nat) : Int)
  let r := m' + n'
  -- an exact zero sum is +0 unless both operands are negative (round-to-nearest rule)
  if r = 0 then .fin (s && t) 0 e0 else .fin (decide (r < 0)) r.natAbs e0

/-- exact sum -/
def addE : Val → Val → Val
  | .nan, _ | _, .nan => .nan
  | .inf s, .inf t => if s = t then .inf s else .nan
  | .inf s, .fin .. => .inf s
  | .fin .., .inf s => .inf s
  | .fin s m e, .fin t n g => addFin s m e t n g

/-- numeric comparison of two finite values: `(-1)^s m 2^e < (-1)^t n 2^g` -/
def finLt (s : Bool) (m : Nat) (e : Int) (t : Bool) (n : Nat) (g : Int) : Bool :=
  let e0 := min e g
  let a : Int := (if s then -1 else 1) * ((m <<< (e - e0).toNat : Nat) : Int)
  let b : Int := (if t then -1 else 1) * ((n <<< (g - e0).toNat : Nat) : Int)
  decide (a < b)

def finEq (s : Bool) (m : Nat) (e : Int) (t : Bool) (n : Nat) (g : Int) : Bool :=
  let e0 := min e g
  let a : Int := (if s then -1 else 1) * ((m <<< (e - e0).toNat : Nat) : Int)
  let b : Int := (if t then -1 else 1) * ((n <<< (g - e0).toNat : Nat) : Int)
  decide (a = b)

/-- IEEE `<` (false if either is NaN) -/
def lt : Val → Val → Bool
  | .nan, _ | _, .nan => false
  | .inf s, .inf t => s && !t
  | .inf s, .fin .. => s
  | .fin .., .inf t => !t
  | .fin s m e, .fin t n g => finLt s m e t n g

/-- IEEE `==` (false if either is NaN; `+0 == -0`) -/
def eq : Val → Val → Bool
  | .nan, _ | _, .nan => false
  | .inf s, .inf t => s == t
  | .inf _, .fin .. | .fin .., .inf _ => false
  | .fin s m e, .fin t n g => finEq s m e t n g

def le (a b : Val) : Bool := lt a b || eq a b

end Val

/-! ### decoding, rounding, encoding -/

def decode (f : Fmt) (bits : Nat) : Val :=
  let s := bits.testBit (f.eb + f.mb)
  let ex := (bits >>> f.mb) % 2 ^ f.eb
  let mant := bits % 2 ^ f.mb
  if ex = f.emaxField then (if mant = 0 then .inf s else .nan)
  else if ex = 0 then .fin s mant f.emin
  else .fin s (2 ^ f.mb + mant) ((ex : Int) - f.bias - f.mb)

/-- Significand and lsb-exponent after rounding the non-zero magnitude `m · 2^e` (plus a
non-zero discarded tail if `sticky`) to nearest even with `mb+1` significant bits, not below
`emin`. -/
def roundCore (f : Fmt) (m : Nat) (e : Int) (sticky : Bool) : Nat × Int :=
  let nb := m.log2 + 1
  let e' : Int := max (e + (nb : Int) - (f.mb + 1)) f.emin
  let sh : Int := e' - e
  let q0 := if sh ≤ 0 then m <<< sh.natAbs else m >>> sh.toNat
  let up :=
    if sh ≤ 0 then false
    else
      let k := sh.toNat
      let rem := m % 2 ^ k
      let half := 2 ^ (k - 1)
      decide (rem > half) || (rem == half && (sticky || q0 % 2 == 1))
  let q := if up then q0 + 1 else q0
  if q ≥ 2 ^ (f.mb + 1) then (q / 2, e' + 1) else (q, e')

/-- overflow test and packaging -/
def finish (f : Fmt) (s : Bool) (q : Nat) (e : Int) : Val :=
  if q ≥ 2 ^ f.mb ∧ e + f.mb + f.bias ≥ (f.emaxField : Int) then .inf s else .fin s q e

/-- round an exact value (with sticky tail flag) to the format -/
def round (f : Fmt) (v : Val) (sticky : Bool := false) : Val :=
  match v with
  | .nan => .nan
  | .inf s => .inf s
  | .fin s m e =>
    if m = 0 then .fin s 0 f.emin
    else
      let r := roundCore f m e sticky
      finish f s r.1 r.2

def signBit (f : Fmt) (s : Bool) : Nat := if s then 2 ^ (f.eb + f.mb) else 0
/-- the canonical quiet NaN (all NaNs are printed as one token) -/
def qnan (f : Fmt) : Nat := (f.emaxField <<< f.mb) ||| 2 ^ (f.mb - 1)
def infBits (f : Fmt) (s : Bool) : Nat := signBit f s ||| (f.emaxField <<< f.mb)

/-- encode a *rounded* value -/
def toBits (f : Fmt) : Val → Nat
  | .nan => qnan f
  | .inf s => infBits f s
  | .fin s q e =>
    if q < 2 ^ f.mb then signBit f s ||| q
    else signBit f s ||| ((e + f.mb + f.bias).toNat <<< f.mb) ||| (q - 2 ^ f.mb)

def encode (f : Fmt) (v : Val) (sticky : Bool := false) : Nat := toBits f (round f v sticky)

/-! ### the operations on bit patterns -/

def isNaN (f : Fmt) (a : Nat) : Bool := (decode f a).isNaN
def isFinite (f : Fmt) (a : Nat) : Bool := (decode f a).isFinite
def neg (f : Fmt) (a : Nat) : Nat := a ^^^ 2 ^ (f.eb + f.mb)
def abs (f : Fmt) (a : Nat) : Nat := a % 2 ^ (f.eb + f.mb)

def mul (f : Fmt) (a b : Nat) : Nat := encode f ((decode f a).mulE (decode f b))
def add (f : Fmt) (a b : Nat) : Nat := encode f ((decode f a).addE (decode f b))
def sub (f : Fmt) (a b : Nat) : Nat := encode f ((decode f a).addE (decode f b).neg)
/-- `a.mul_add(b, c)`: one rounding -/
def fma (f : Fmt) (a b c : Nat) : Nat := encode f (((decode f a).mulE (decode f b)).addE (decode f c))

def lt (f : Fmt) (a b : Nat) : Bool := (decode f a).lt (decode f b)
def le (f : Fmt) (a b : Nat) : Bool := (decode f a).le (decode f b)
def eq (f : Fmt) (a b : Nat) : Bool := (decode f a).eq (decode f b)
def gt (f : Fmt) (a b : Nat) : Bool := lt f b a
def ge (f : Fmt) (a b : Nat) : Bool := le f b a

/-- quotient of two non-zero magnitudes: truncated significand with at least `mb + 3` bits and a
sticky flag -/
def divMag (f : Fmt) (m : Nat) (e : Int) (n : Nat) (g : Int) : Nat × Int × Bool :=
  let k := f.mb + 3 + (n.log2 + 1)           -- enough extra bits whatever `m ≥ 1` is
  let num := m <<< k
  (num / n, e - g - k, decide (num % n ≠ 0))

def divV (f : Fmt) : Val → Val → Val × Bool
  | .nan, _ | _, .nan => (.nan, false)
  | .inf _, .inf _ => (.nan, false)
  | .inf s, .fin t _ _ => (.inf (s != t), false)
  | .fin s _ _, .inf t => (.fin (s != t) 0 0, false)
  | .fin s m e, .fin t n g =>
    if n = 0 then (if m = 0 then (.nan, false) else (.inf (s != t), false))
    else if m = 0 then (.fin (s != t) 0 0, false)
    else
      let (q, x, st) := divMag f m e n g
      (.fin (s != t) q x, st)

def div (f : Fmt) (a b : Nat) : Nat :=
  let r := divV f (decode f a) (decode f b)
  encode f r.1 r.2

/-- square root of a positive magnitude: truncated root and sticky flag -/
def sqrtMag (f : Fmt) (m : Nat) (e : Int) : Nat × Int × Bool :=
  -- scale so that the radicand has an even exponent and at least 2(mb+3) bits
  let k0 := 2 * (f.mb + 3)
  let k := if (e - k0) % 2 = 0 then k0 else k0 + 1
  let rad := m <<< k
  let r := rad.sqrt
  (r, (e - k) / 2, decide (r * r ≠ rad))

def sqrtV (f : Fmt) : Val → Val × Bool
  | .nan => (.nan, false)
  | .inf s => (if s then .nan else .inf false, false)
  | .fin s m e =>
    if m = 0 then (.fin s 0 0, false)
    else if s then (.nan, false)
    else
      let (r, x, st) := sqrtMag f m e
      (.fin false r x, st)

def sqrt (f : Fmt) (a : Nat) : Nat :=
  let r := sqrtV f (decode f a)
  encode f r.1 r.2

/-- `x as f32` for `x : f64` (and any other format change): round the exact value once -/
def convert (src dst : Fmt) (a : Nat) : Nat := encode dst (decode src a)

/-- an integer as a float (`n as f64`, literals) -/
def ofNat (f : Fmt) (n : Nat) : Nat := encode f (.fin false n 0)

end Urandom.IEEE
