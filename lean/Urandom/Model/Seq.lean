import Urandom.Model.UniformInt
/-
Model of the sequence algorithms of `src/random.rs`: `index`, `choose`, `shuffle`,
`partial_shuffle`, `single` (exact-size path; the reservoir path is in `Model/Reservoir.lean`
because it needs floating point) and `multiple`.  Elements are `Nat`s.
`none` = panic (the `Mock` ran dry, `slice.swap` out of bounds, `unwrap` on an empty range).
-/
namespace Urandom.Seq
open Urandom

/-- `slice.swap(i, j)`: panics when an index is out of bounds -/
def swap? (a : Array Nat) (i j : Nat) : Option (Array Nat) :=
  if i < a.size ∧ j < a.size then some (a.swapIfInBounds i j) else none

/-- `Random::shuffle`: `while len > 1 { let k = self.index(len); slice.swap(k, len - 1); len -= 1; }` -/
def shuffleLoop : Nat → Array Nat → Draw (Array Nat)
  | len+2, a, ws =>
    match index (len+2) ws with
    | none => none
    | some (k, ws') =>
      match swap? a k (len+1) with
      | none => none
      | some a' => shuffleLoop (len+1) a' ws'
  | _, a, ws => some (a, ws)

def shuffle (a : Array Nat) : Draw (Array Nat) := shuffleLoop a.size a

/-- `self.range(i..len)` on `usize`: `Uniform::from(i..len).sample(self)`; `from` unwraps. -/
def rangeUsize (lo hi : Nat) : Draw Nat := fun ws =>
  match UniformInt.tryNew IntTy.usize lo hi false with
  | .error _ => none
  | .ok d => UniformInt.sample IntTy.usize d ws

/-- `for i in 0..n { let k = self.range(i..slice.len()); slice.swap(i, k); }`, `cnt` iterations left -/
def pshufLoop : Nat → Nat → Array Nat → Draw (Array Nat)
  | 0, _, a, ws => some (a, ws)
  | cnt+1, i, a, ws =>
    match rangeUsize i a.size ws with
    | none => none
    | some (k, ws') =>
      match swap? a i k with
      | none => none
      | some a' => pshufLoop cnt (i+1) a' ws'

/-- `Random::partial_shuffle(slice, n)` -/
def partialShuffle (a : Array Nat) (n : Nat) : Draw (Array Nat) :=
  if a.size > 1 then pshufLoop (min n (a.size - 1)) 0 a else fun ws => some (a, ws)

/-- `Random::choose` / `choose_mut`: `slice.get(self.index(slice.len()))` -/
def choose (a : Array Nat) : Draw (Option Nat) := fun ws =>
  match index a.size ws with
  | none => none
  | some (k, ws') => some (a[k]?, ws')

/-- `Random::single` when `size_hint` is exact (`upper == Some(len)`):
`iter.nth(usize::min(len, self.index(len)))`.  `items` is what the iterator really yields. -/
def singleExact (hintLen : Nat) (items : List Nat) : Draw (Option Nat) := fun ws =>
  match index hintLen ws with
  | none => none
  | some (k, ws') => some (items[min hintLen k]?, ws')

/-- `Random::multiple`'s loop over the remaining items `xs` (the next one has position `i`);
`len` slots are filled so far:
`if len < amount { buf[len] = elem; len += 1 } else { let k = self.index(i + 1); if let Some(slot) = buf.get_mut(k) { *slot = elem } }` -/
def multipleLoop : List Nat → Nat → Array Nat → Nat → Draw (Array Nat × Nat)
  | [], _, buf, len, ws => some ((buf, len), ws)
  | x :: xs, i, buf, len, ws =>
    if len < buf.size then multipleLoop xs (i+1) (buf.setIfInBounds len x) (len+1) ws
    else
      match index (i + 1) ws with
      | none => none
      | some (k, ws') => multipleLoop xs (i+1) (buf.setIfInBounds k x) len ws'

/-- `Random::multiple(collection, buf)`; returns (buffer afterwards, count). -/
def multiple (items : List Nat) (buf : Array Nat) : Draw (Array Nat × Nat) :=
  multipleLoop items 0 buf 0

end Urandom.Seq
