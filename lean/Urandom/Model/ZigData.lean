import Urandom.Model.FloatDistr
import Urandom.Generated.ZigTables
/-
The ziggurat tables as the model uses them: bit patterns computed *in Lean* from the exact decimal
literals translated from `src/distr/ziggurat_tables.rs` (correctly rounded: rustc's float parsing is
correctly rounded too; the agreement is observed by the `zig` correspondence stream on all layers).
-/
namespace Urandom.FD
open Urandom.IEEE Urandom.Generated

/-- the binary64 nearest to `num / den` -/
def ratBits (num den : Nat) : Nat :=
  let r := divV b64 (.fin false num 0) (.fin false den 0)
  encode b64 r.1 r.2

def decBits (p : Nat × Nat) : Nat := ratBits p.1 (10 ^ p.2)

def tables : ZigTables where
  normX := (ZIG_NORM_X.map decBits).toArray
  normF := (ZIG_NORM_F.map decBits).toArray
  normR := decBits ZIG_NORM_R
  expX := (ZIG_EXP_X.map decBits).toArray
  expF := (ZIG_EXP_F.map decBits).toArray
  expR := decBits ZIG_EXP_R

end Urandom.FD
