import Urandom.Model.FloatDistr
import Urandom.Model.Seq
/-
Model of the unknown-size path of `Random::single` (`src/random.rs`): reservoir sampling with a
floating-point counter, `if self.chance(1.0 / denom) { result = Some(item) }; denom += 1.0`.
Import-free.
-/
namespace Urandom.Reservoir
open Urandom Urandom.IEEE

def one : Nat := 0x3FF0000000000000

/-- the loop over the remaining items; `denom` is an `f64` bit pattern -/
def loop : List Nat → Nat → Option Nat → Draw (Option Nat)
  | [], _, result, ws => some (result, ws)
  | item :: rest, denom, result, ws =>
    match bernoulli (div b64 one denom) ws with
    | none => none
    | some (take, ws') => loop rest (add b64 denom one) (if take then some item else result) ws'

/-- `Random::single` when the size hint is not exact -/
def single (items : List Nat) : Draw (Option Nat) := loop items one none

/-- `Random::single`: the exact-size shortcut is taken iff `upper == Some(lower)` -/
def singleHinted (lower : Nat) (upper : Option Nat) (items : List Nat) : Draw (Option Nat) :=
  if upper = some lower then Seq.singleExact lower items else single items

end Urandom.Reservoir
