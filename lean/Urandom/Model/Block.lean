import Urandom.Model.ChaCha
/-
Model of `src/rng/block.rs` (`BlockRngImpl<T>`), polymorphic in the element type `β` of a batch:
the buffer logic only copies elements and never inspects them.  It is instantiated with bytes and
the ChaCha core (the executable model compared with the code) and with *positions*
`(stream, block counter, byte offset)` over unbounded logical counters (the ghost semantics of C03).
Import-free.
-/
namespace Urandom.Block

/-- the block generator core: `generate` (a batch of 256 elements, indices `< 256` matter) and `jump` -/
structure Core (κ β : Type) where
  gen : κ → (Nat → β) × κ
  jmp : κ → κ

/-- `BlockRngImpl { state, index, random }` -/
structure BS (κ β : Type) where
  core : κ
  index : Nat
  buf : Nat → β

variable {κ β : Type}

def take (buf : Nat → β) (start n : Nat) : List β := (List.range n).map (fun i => buf (start + i))

/-- `self.state.generate(&mut self.random); index = 0` -/
def refill (C : Core κ β) (s : BS κ β) : BS κ β := ⟨(C.gen s.core).2, 0, (C.gen s.core).1⟩

/-- `next_u32` (`n = 4`) / `next_u64` (`n = 8`): refill if `index > 256 - n`, serve `n` elements -/
def nextN (C : Core κ β) (n : Nat) (s : BS κ β) : List β × BS κ β :=
  let s := if s.index > 256 - n then refill C s else s
  (take s.buf s.index n, { s with index := s.index + n })

/-- `while buf.len() >= 256`: whole batches written straight to the destination (via `tmp`) -/
def direct (C : Core κ β) : Nat → κ → List β × κ
  | 0, c => ([], c)
  | k+1, c => ((take (C.gen c).1 0 256) ++ (direct C k (C.gen c).2).1, (direct C k (C.gen c).2).2)

/-- the remainder (`0 < len < 256`) is served from the buffer, refilling at most once:
`start = min(index, 256)`, copy what is there, generate if more is needed, `index += len` -/
def fillRem (C : Core κ β) (len : Nat) (s : BS κ β) : List β × BS κ β :=
  let start := min s.index 256
  let avail := 256 - start
  if len ≤ avail then (take s.buf start len, { s with index := s.index + len })
  else
    let s' := refill C s
    (take s.buf start avail ++ take s'.buf 0 (len - avail), { s' with index := len - avail })

/-- `fill_bytes(len)` -/
def fill (C : Core κ β) (len : Nat) (s : BS κ β) : List β × BS κ β :=
  let d := direct C (len / 256) s.core
  let s1 : BS κ β := { s with core := d.2 }
  if len % 256 = 0 then (d.1, s1) else (d.1 ++ (fillRem C (len % 256) s1).1, (fillRem C (len % 256) s1).2)

/-- `jump`: `self.state.jump(); self.index = !0` -/
def jump (C : Core κ β) (s : BS κ β) : BS κ β := { s with core := C.jmp s.core, index := 2 ^ 32 - 1 }

/-- `BlockRngImpl::new(state)`: `index = !0`, `random = default` -/
def new (core : κ) (dflt : β) : BS κ β := ⟨core, 2 ^ 32 - 1, fun _ => dflt⟩

/-- the operations of one generator (`next_f32` / `next_f64` are the trait defaults on top of
`next_u32` / `next_u64`, so they consume 4 / 8 elements) -/
inductive Op where
  | u32 | u64 | f32 | f64
  | fill (n : Nat)
  | jump
deriving DecidableEq, Repr

def stepOp (C : Core κ β) (s : BS κ β) : Op → List β × BS κ β
  | .u32 => nextN C 4 s
  | .u64 => nextN C 8 s
  | .f32 => nextN C 4 s
  | .f64 => nextN C 8 s
  | .fill n => fill C n s
  | .jump => ([], jump C s)

/-- all elements issued by a history, in order -/
def run (C : Core κ β) : BS κ β → List Op → List β × BS κ β
  | s, [] => ([], s)
  | s, op :: ops => ((stepOp C s op).1 ++ (run C (stepOp C s op).2 ops).1, (run C (stepOp C s op).2 ops).2)

/-- `Random::split`: the child is the generator as it was, the parent jumps -/
def split (C : Core κ β) (s : BS κ β) : BS κ β × BS κ β := (s, jump C s)

/-! ### serde (`#[serde(default = …, skip_serializing_if = …)]` on `index` and `random`) -/

/-- what serde writes for a block generator over bytes -/
structure Ser (κ : Type) where
  state : κ
  index : Option Nat                 -- `skip_serializing_if = "is_index_oob"`
  random : Option (List (BitVec 8))  -- `skip_serializing_if = "is_default"`; the 256 bytes otherwise

def bufList (buf : Nat → BitVec 8) : List (BitVec 8) := take buf 0 256

def ser (s : BS κ (BitVec 8)) : Ser κ :=
  ⟨s.core, if s.index ≥ 256 then none else some s.index,
   if bufList s.buf = List.replicate 256 0#8 then none else some (bufList s.buf)⟩

def de (j : Ser κ) : BS κ (BitVec 8) :=
  ⟨j.state, j.index.getD (2 ^ 32 - 1), fun i => (j.random.getD (List.replicate 256 0#8)).getD i 0#8⟩

/-! ### the byte instance: ChaCha -/

open Urandom.ChaCha in
/-- the ChaCha core: `generate` = one batch of four blocks as 256 bytes, `jump` = stream id + 1 -/
def chachaCore (N : Nat) : Core State (BitVec 8) where
  gen s :=
    let (b, s') := block N s
    let bytes := (batchBytes b).toArray
    (fun i => bytes.getD i 0#8, s')
  jmp := State.jump

end Urandom.Block
