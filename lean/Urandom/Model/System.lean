import Urandom.Model.Word
/-
Model of `src/rng/system.rs` (`System<N>`) and `src/rng/entropy.rs` over a scripted entropy source,
and of the entropy-seeded constructors (`X::new()`).  Import-free.

The entropy source is a script of fetch outcomes; a *failing* fetch may overwrite the destination
("scribble") before reporting failure, after which `getentropy*` panics.  Successful fetch number
`k` (counting all fetches, from 0) delivers the tagged 32-bit words `tag k j`, so that every word's
origin can be read off its value.
-/
namespace Urandom.SystemGen

/-- word `j` of fetch `k` (little-endian byte stream of these words for byte fetches) -/
def tag (k j : Nat) : Nat := ((k + 1) % 65536) * 65536 + j % 65536

/-- the value a failed fetch leaves behind in every word it touched -/
def SCRIBBLE : Nat := 0xEEEEEEEE

/-- how words are labelled: a good word `j` of fetch `k`, a word scribbled by failed fetch `k`, the initial zero -/
structure Labels (α : Type) where
  good : Nat → Nat → α
  bad : Nat → α
  zero : α

/-- the executable labelling: tagged numbers -/
def natLabels : Labels Nat := ⟨tag, fun _ => SCRIBBLE, 0⟩

/-- origins, for the theorems -/
inductive Src where
  | zero
  | good (k j : Nat)
  | bad (k : Nat)
deriving DecidableEq, Repr

def srcLabels : Labels Src := ⟨.good, .bad, .zero⟩

structure St (α : Type) where
  index : Nat              -- `u32`, `!0` initially
  buf : List α             -- `[u32; N]`
  fetches : Nat            -- number of fetches performed so far (successful or not)
  script : List Bool       -- outcomes of the coming fetches (`true` = ok); exhausted = ok

def St.new {α : Type} (L : Labels α) (N : Nat) (script : List Bool) : St α := ⟨2 ^ 32 - 1, List.replicate N L.zero, 0, script⟩

inductive Op where
  | u32 | u64 | fill (n : Nat) | jump
deriving DecidableEq, Repr

/-- `words`: one (`next_u32`) or two (`next_u64`, low word first) buffer words;
`fetched k n`: the `n` bytes of the successful byte fetch number `k` -/
inductive Out (α : Type) where
  | words (l : List α) | fetched (k n : Nat) | unit | panic

variable {α : Type} (L : Labels α)

/-- `getentropy(&mut self.random)` -/
def fetchBlock (N : Nat) (s : St α) : Bool × St α :=
  let ok := s.script.headD true
  let k := s.fetches
  let buf := if ok then (List.range N).map (L.good k) else List.replicate N (L.bad k)
  (ok, { s with buf := buf, fetches := k + 1, script := s.script.tail })

/-- byte `i` of a byte fetch number `k` -/
def tagByte (k i : Nat) : Nat := (tag k (i / 4) / 256 ^ (i % 4)) % 256

/-- `next_u32` (after fix D6 the index is invalidated *before* the fetch, so a failed fetch can
never be served later) -/
def nextU32 (N : Nat) (s : St α) : Out α × St α :=
  if s.index ≥ N then
    if N = 0 then
      -- `getentropy(&mut [])` fetches nothing; `self.random[0]` is out of bounds
      (.panic, { s with index := 2 ^ 32 - 1 })
    else
      let (ok, s') := fetchBlock L N { s with index := 2 ^ 32 - 1 }
      if ok then (.words (s'.buf.take 1), { s' with index := 1 })
      else (.panic, s')
  else (.words ((s.buf.drop s.index).take 1), { s with index := s.index + 1 })

/-- `next_u64`: refill if fewer than two words are left (`index >= N - 1`) -/
def nextU64 (N : Nat) (s : St α) : Out α × St α :=
  if N = 0 then (.panic, s)                         -- `N - 1` underflows / index out of bounds: panic only
  else if s.index ≥ N - 1 then
    let (ok, s') := fetchBlock L N { s with index := 2 ^ 32 - 1 }
    if ¬ ok then (.panic, s')
    else if N < 2 then (.panic, s')                  -- `self.random[1]` out of bounds for N = 1
    else (.words (s'.buf.take 2), { s' with index := 2 })
  else (.words ((s.buf.drop s.index).take 2), { s with index := s.index + 2 })

/-- `fill_bytes`: straight to the entropy source with the same length (no call for an empty buffer) -/
def fill (n : Nat) (s : St α) : Out α × St α :=
  if n = 0 then (.fetched 0 0, s)
  else
    let ok := s.script.headD true
    let k := s.fetches
    let s' := { s with fetches := k + 1, script := s.script.tail }
    if ok then (.fetched k n, s') else (.panic, s')

def step (N : Nat) (s : St α) : Op → Out α × St α
  | .u32 => nextU32 L N s
  | .u64 => nextU64 L N s
  | .fill n => fill n s
  | .jump => (.unit, { s with index := 2 ^ 32 - 1 })

def run (N : Nat) : St α → List Op → List (Out α)
  | _, [] => []
  | s, op :: ops => (step L N s op).1 :: run N (step L N s op).2 ops

/-! ### the entropy-seeded constructors -/

/-- `X::new()` for a generator whose state is `words` 32-bit words: ONE fetch of the whole state
(`getentropy(&mut state)` / `util::getrandom()`), the state words are the fetched words in order;
a failing fetch panics (`none`). `words`: 8 for Xoshiro256, 2 for SplitMix64 / Wyrand, 12 for
ChaCha (key, counter, stream). -/
def newState {α : Type} (L : Labels α) (words : Nat) (script : List Bool) : Option (List α) :=
  if script.headD true then some ((List.range words).map (L.good 0)) else none

end Urandom.SystemGen
