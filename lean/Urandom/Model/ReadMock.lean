import Urandom.Model.Draw
/-
Model of `src/rng/read.rs` (`Read<R: io::Read>`) over a scripted reader, with std's documented
`read_exact` loop, and of `src/rng/mock.rs` (`Mock<I>`) under op histories.  Import-free.
-/
namespace Urandom.ReadGen

/-- what one call of the underlying `read` does -/
inductive Ev where
  | chunk (k : Nat)   -- hand out at most `k ≥ 1` bytes (fewer if the destination or the data is shorter)
  | intr              -- `Err(ErrorKind::Interrupted)`
  | err               -- any other error
deriving DecidableEq, Repr

/-- the reader: remaining data and remaining script (an exhausted script hands out everything asked for) -/
structure Reader where
  data : List Byte
  script : List Ev
deriving Repr

inductive ReadResult where
  | ok (n : Nat)
  | interrupted
  | error

/-- one `read(buf)` call with `want = buf.len() > 0` -/
def Reader.read (r : Reader) (want : Nat) : ReadResult × Reader :=
  match r.script with
  | [] => let n := min want r.data.length; (.ok n, ⟨r.data.drop n, []⟩)
  | .chunk k :: rest => let n := min (min (max k 1) want) r.data.length; (.ok n, ⟨r.data.drop n, rest⟩)
  | .intr :: rest => (.interrupted, ⟨r.data, rest⟩)
  | .err :: rest => (.error, ⟨r.data, rest⟩)

/-- std's `read_exact`: loop until the buffer is full; `Ok(0)` means end of data (`UnexpectedEof`),
`Interrupted` is retried, any other error is returned.  `none` = the call failed (the generator
panics).  The bytes already delivered by a failing call are lost with it. -/
def readExact : Nat → Nat → Reader → List Byte → Option (List Byte) × Reader
  | 0, _, r, _ => (none, r)                       -- out of fuel (unreachable with fuel = |script| + want + 1)
  | _, 0, r, acc => (some acc, r)
  | fuel+1, want+1, r, acc =>
    match r.read (want+1) with
    | (.ok 0, r') => (none, r')
    | (.ok n, r') => readExact fuel (want + 1 - n) r' (acc ++ r.data.take n)
    | (.interrupted, r') => readExact fuel (want+1) r' acc
    | (.error, r') => (none, r')

def Reader.exact (r : Reader) (n : Nat) : Option (List Byte) × Reader :=
  readExact (r.script.length + n + 1) n r []

def leVal (l : List Byte) : Nat := l.foldr (fun b acc => b.toNat + 256 * acc) 0

inductive Op where
  | u32 | u64 | fill (n : Nat) | jump
deriving DecidableEq, Repr

inductive Out where
  | val (v : Nat) | bytes (l : List Byte) | unit | panic
deriving DecidableEq, Repr

/-- `Read`: `next_u32` / `next_u64` read 4 / 8 bytes and assemble them little-endian; `fill_bytes`
reads exactly `len`; `jump` does nothing; a failed `read_exact` panics -/
def step (r : Reader) : Op → Out × Reader
  | .u32 => match r.exact 4 with
    | (some b, r') => (.val (leVal b), r')
    | (none, r') => (.panic, r')
  | .u64 => match r.exact 8 with
    | (some b, r') => (.val (leVal b), r')
    | (none, r') => (.panic, r')
  | .fill n => match r.exact n with
    | (some b, r') => (.bytes b, r')
    | (none, r') => (.panic, r')
  | .jump => (.unit, r)

def run : Reader → List Op → List Out
  | _, [] => []
  | r, op :: ops => (step r op).1 :: run (step r op).2 ops

end Urandom.ReadGen

namespace Urandom.MockGen
open Urandom

/-- `Mock`: `next_u64` = next word, `next_u32` = its low half (one word consumed), `fill_bytes` =
`rng_fill_bytes` over the words, exhaustion = panic, `jump` = `unimplemented!()` = panic.
A panicking fill has consumed the words it could get. -/
def step (ws : Words) : ReadGen.Op → ReadGen.Out × Words
  | .u32 => match ws with
    | [] => (.panic, [])
    | w :: ws' => (.val (w.toNat % 2 ^ 32), ws')
  | .u64 => match ws with
    | [] => (.panic, [])
    | w :: ws' => (.val w.toNat, ws')
  | .fill n =>
    let need := (n + 7) / 8
    if ws.length < need then (.panic, [])
    else
      let g : WordGen Words := ⟨fun s => (0, s), fun s => (s.headD 0, s.tail), fun s => (0, s), fun s => (0, s), id⟩
      let (b, ws') := fillBytes g ws n
      (.bytes b, ws')
  | .jump => (.panic, ws)

def run : Words → List ReadGen.Op → List ReadGen.Out
  | _, [] => []
  | ws, op :: ops => (step ws op).1 :: run (step ws op).2 ops

end Urandom.MockGen
