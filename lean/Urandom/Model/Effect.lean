/-
One store through a raw pointer, as the effect translator (`tools/extract_effect.py`) records it: the first `n` little-endian bytes of an
integer of `width` bits (zero-extended to 64 bits in `value`) are stored at byte offset `off` from the start of the destination.
Import-free.
-/
namespace Urandom

structure PtrWrite where
  off : BitVec 64
  n : Nat
  width : Nat
  value : BitVec 64
deriving Repr, DecidableEq

/-- what `BlockRngImpl::next_u32` / `next_u64` do to the block, in program order: `self.state.generate(&mut self.random)`, and the value
`uN::from_le_bytes([random[o0], random[o1], ..])` read from the block as it is at that point -/
inductive BlockEv where
  | gen
  | load (offs : List (BitVec 64))
deriving Repr, DecidableEq

end Urandom
