/-
One store through a raw pointer, as the effect translator (`tools/extract_effect.py`) records it: the first `n` little-endian bytes of an
integer of `width` bits (zero-extended to 64 bits in `value`) are stored at byte offset `off` from the start of the destination.
Import-free.
-/
namespace Urandom

structure PtrWrite where
  off : BitVec 64
  n : Nat
  width : Nat
  value : BitVec 64
deriving Repr, DecidableEq

/-- what `BlockRngImpl::next_u32` / `next_u64` do to the block, in program order: `self.state.generate(&mut self.random)`, and the value
`uN::from_le_bytes([random[o0], random[o1], ..])` read from the block as it is at that point -/
inductive BlockEv where
  | gen
  | load (offs : List (BitVec 64))
deriving Repr, DecidableEq

/-- what `BlockRngImpl::fill_bytes` does, in program order: `self.state.generate(&mut tmp)` / `(&mut self.random)`, a copy of `n` bytes from
the start of `tmp` to offset `dst` of the destination, a copy of `n` bytes from offset `src` of the block to offset `dst` of the destination -/
inductive FillEv where
  | genTmp
  | genRandom
  | copyTmp (dst n : BitVec 64)
  | copyRandom (src dst n : BitVec 64)
deriving Repr, DecidableEq

/-- what `System<N>::next_u32` / `next_u64` do, in program order: an assignment to `self.index`, `getentropy(&mut self.random)` (a failing
fetch panics), the read of the word `self.random[i]` (out of bounds panics) -/
inductive SysEv where
  | setIndex (v : BitVec 32)
  | fetch
  | load (i : BitVec 64)
deriving Repr, DecidableEq

/-- the stores of `Random::multiple`: `buf[idx] = <item number item>` (an indexing store: out of bounds panics) and
`if let Some(slot) = buf.get_mut(idx) { *slot = <item> }` (out of bounds: nothing) -/
inductive MulEv where
  | store (idx item : BitVec 64)
  | storeIf (idx item : BitVec 64)
deriving Repr, DecidableEq

end Urandom
