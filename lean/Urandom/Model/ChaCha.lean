/-
Model of `src/rng/chacha.rs` and its back ends (`chacha/sse2.rs`, `chacha/slp.rs`; the AVX2 back
end computes the same row-wise algorithm on two blocks per register), and Bernstein's ChaCha block
function as the specification.  Import-free.

The quarter round is a parameter of the data-movement part (`specDouble`, `rowDouble`), so that
"row-wise formulation = column round followed by diagonal round" is a statement about word
shuffling only; `qr32` is the concrete ARX quarter round.
-/
namespace Urandom.ChaCha

/-- the 4×4 matrix of words, row-major -/
structure St (W : Type) where
  x0 : W
  x1 : W
  x2 : W
  x3 : W
  x4 : W
  x5 : W
  x6 : W
  x7 : W
  x8 : W
  x9 : W
  x10 : W
  x11 : W
  x12 : W
  x13 : W
  x14 : W
  x15 : W
deriving DecidableEq, Repr

section dataMovement
variable {W : Type} (qr : W → W → W → W → W × W × W × W)

/-- **specification**: one double round = column round, then diagonal round (Bernstein 2008) -/
def specDouble (s : St W) : St W :=
  let (a0, b0, c0, d0) := qr s.x0 s.x4 s.x8 s.x12
  let (a1, b1, c1, d1) := qr s.x1 s.x5 s.x9 s.x13
  let (a2, b2, c2, d2) := qr s.x2 s.x6 s.x10 s.x14
  let (a3, b3, c3, d3) := qr s.x3 s.x7 s.x11 s.x15
  -- diagonals: (0,5,10,15) (1,6,11,12) (2,7,8,13) (3,4,9,14)
  let (a0, b1, c2, d3) := qr a0 b1 c2 d3
  let (a1, b2, c3, d0) := qr a1 b2 c3 d0
  let (a2, b3, c0, d1) := qr a2 b3 c0 d1
  let (a3, b0, c1, d2) := qr a3 b0 c1 d2
  ⟨a0, a1, a2, a3, b0, b1, b2, b3, c0, c1, c2, c3, d0, d1, d2, d3⟩

/-- a row of the matrix as a 4-lane vector (`__m128i` / `[u32; 4]`) -/
structure Row (W : Type) where
  l0 : W
  l1 : W
  l2 : W
  l3 : W
deriving DecidableEq, Repr

/-- `quarter_round!(a, b, c, d)` on rows: the quarter round in every lane -/
def qrRows (a b c d : Row W) : Row W × Row W × Row W × Row W :=
  let (a0, b0, c0, d0) := qr a.l0 b.l0 c.l0 d.l0
  let (a1, b1, c1, d1) := qr a.l1 b.l1 c.l1 d.l1
  let (a2, b2, c2, d2) := qr a.l2 b.l2 c.l2 d.l2
  let (a3, b3, c3, d3) := qr a.l3 b.l3 c.l3 d.l3
  (⟨a0, a1, a2, a3⟩, ⟨b0, b1, b2, b3⟩, ⟨c0, c1, c2, c3⟩, ⟨d0, d1, d2, d3⟩)

/-- `_mm_shuffle_epi32(r, 1 | 2<<2 | 3<<4 | 0<<6)` / `[r[1], r[2], r[3], r[0]]` -/
def rot1 (r : Row W) : Row W := ⟨r.l1, r.l2, r.l3, r.l0⟩
def rot2 (r : Row W) : Row W := ⟨r.l2, r.l3, r.l0, r.l1⟩
def rot3 (r : Row W) : Row W := ⟨r.l3, r.l0, r.l1, r.l2⟩

/-- the code's loop body:
`quarter_round!(a,b,c,d); rotate_matrix!(a,b,c,d); quarter_round!(a,b,c,d); rotate_matrix!(a,d,c,b);` -/
def rowDouble (a b c d : Row W) : Row W × Row W × Row W × Row W :=
  let (a, b, c, d) := qrRows qr a b c d
  let (b, c, d) := (rot1 b, rot2 c, rot3 d)
  let (a, b, c, d) := qrRows qr a b c d
  -- rotate_matrix!(a, d, c, b): `$b := d` gets rot1, `$c := c` gets rot2, `$d := b` gets rot3
  let (d, c, b) := (rot1 d, rot2 c, rot3 b)
  (a, b, c, d)

def toRows (s : St W) : Row W × Row W × Row W × Row W :=
  (⟨s.x0, s.x1, s.x2, s.x3⟩, ⟨s.x4, s.x5, s.x6, s.x7⟩, ⟨s.x8, s.x9, s.x10, s.x11⟩, ⟨s.x12, s.x13, s.x14, s.x15⟩)

def ofRows (r : Row W × Row W × Row W × Row W) : St W :=
  ⟨r.1.l0, r.1.l1, r.1.l2, r.1.l3, r.2.1.l0, r.2.1.l1, r.2.1.l2, r.2.1.l3,
   r.2.2.1.l0, r.2.2.1.l1, r.2.2.1.l2, r.2.2.1.l3, r.2.2.2.l0, r.2.2.2.l1, r.2.2.2.l2, r.2.2.2.l3⟩

def iterN {α : Type} (f : α → α) : Nat → α → α
  | 0, a => a
  | n+1, a => iterN f n (f a)

end dataMovement

abbrev W32 := BitVec 32

/-- the ARX quarter round (`rol!` by 16, 12, 8, 7) -/
def qr32 (a b c d : W32) : W32 × W32 × W32 × W32 :=
  let a := a + b; let d := (d ^^^ a).rotateLeft 16
  let c := c + d; let b := (b ^^^ c).rotateLeft 12
  let a := a + b; let d := (d ^^^ a).rotateLeft 8
  let c := c + d; let b := (b ^^^ c).rotateLeft 7
  (a, b, c, d)

def addSt (s t : St W32) : St W32 :=
  ⟨s.x0 + t.x0, s.x1 + t.x1, s.x2 + t.x2, s.x3 + t.x3, s.x4 + t.x4, s.x5 + t.x5, s.x6 + t.x6, s.x7 + t.x7,
   s.x8 + t.x8, s.x9 + t.x9, s.x10 + t.x10, s.x11 + t.x11, s.x12 + t.x12, s.x13 + t.x13, s.x14 + t.x14, s.x15 + t.x15⟩

/-- `ChaChaState<N>`: `seed: [u32; 8], counter: [u32; 2], stream: [u32; 2]` -/
structure State where
  k0 : W32
  k1 : W32
  k2 : W32
  k3 : W32
  k4 : W32
  k5 : W32
  k6 : W32
  k7 : W32
  c0 : W32
  c1 : W32
  s0 : W32
  s1 : W32
deriving DecidableEq, Repr

def lo32 (x : BitVec 64) : W32 := x.setWidth 32
def hi32 (x : BitVec 64) : W32 := (x >>> 32).setWidth 32
def join64 (lo hi : W32) : BitVec 64 := (hi.setWidth 64 <<< 32) ||| lo.setWidth 64

namespace State
def getCounter (s : State) : BitVec 64 := join64 s.c0 s.c1
def setCounter (s : State) (c : BitVec 64) : State := { s with c0 := lo32 c, c1 := hi32 c }
/-- `add_counter`: `self.get_counter().wrapping_add(counter)` -/
def addCounter (s : State) (k : BitVec 64) : State := s.setCounter (s.getCounter + k)
def getStream (s : State) : BitVec 64 := join64 s.s0 s.s1
def setStream (s : State) (c : BitVec 64) : State := { s with s0 := lo32 c, s1 := hi32 c }

/-- `get_state`: constants, key, counter, stream -/
def getState (s : State) : St W32 :=
  ⟨0x61707865#32, 0x3320646e#32, 0x79622d32#32, 0x6b206574#32,
   s.k0, s.k1, s.k2, s.k3, s.k4, s.k5, s.k6, s.k7, s.c0, s.c1, s.s0, s.s1⟩

/-- `ChaChaState::new(seed, counter, stream)` -/
def new (k0 k1 k2 k3 k4 k5 k6 k7 : W32) (counter stream : BitVec 64) : State :=
  ⟨k0, k1, k2, k3, k4, k5, k6, k7, lo32 counter, hi32 counter, lo32 stream, hi32 stream⟩

/-- `BlockRng::jump`: `set_stream(get_stream().wrapping_add(1))` -/
def jump (s : State) : State := s.setStream (s.getStream + 1)
end State

/-- `ChaCha::from_seed`: key = the two seed halves repeated, counter 1, stream 0 -/
def fromSeed (seed : BitVec 64) : State :=
  let low := lo32 (seed &&& 0xffffffff#64)
  let high := hi32 seed
  State.new low high low high low high low high 1#64 0#64

/-- one block as the back ends compute it: `N/2` row-wise double rounds, then the feed-forward -/
def rowBlock (N : Nat) (words : St W32) : St W32 :=
  let r := iterN (fun (r : Row W32 × Row W32 × Row W32 × Row W32) => rowDouble qr32 r.1 r.2.1 r.2.2.1 r.2.2.2) (N / 2) (toRows words)
  addSt (ofRows r) words

/-- **Bernstein's ChaCha block function** with `N` rounds on an initial matrix -/
def specBlockOf (N : Nat) (init : St W32) : St W32 :=
  addSt (iterN (specDouble qr32) (N / 2) init) init

/-- the specification: block number `ctr` of stream `str` under the key -/
def specBlock (N : Nat) (key : State) (ctr str : BitVec 64) : St W32 :=
  specBlockOf N ((key.setCounter ctr).setStream str).getState

/-- `chacha_block` (sse2 / slp): four blocks at counters `c, c+1, c+2, c+3`, then
`state.set_counter(state.get_counter().wrapping_add(4))` (after fix D7; the pinned tree used a
checked `+ 4`, which panics in debug builds when the counter wraps). -/
def block (N : Nat) (s : State) : (St W32 × St W32 × St W32 × St W32) × State :=
  let w1 := s.getState
  let w2 := (s.addCounter 1).getState
  let w3 := (s.addCounter 2).getState
  let w4 := (s.addCounter 3).getState
  ((rowBlock N w1, rowBlock N w2, rowBlock N w3, rowBlock N w4), s.setCounter (s.getCounter + 4))

def St.words {W : Type} (s : St W) : List W :=
  [s.x0, s.x1, s.x2, s.x3, s.x4, s.x5, s.x6, s.x7, s.x8, s.x9, s.x10, s.x11, s.x12, s.x13, s.x14, s.x15]

def wordBytes (w : W32) : List (BitVec 8) :=
  [w.setWidth 8, (w >>> 8).setWidth 8, (w >>> 16).setWidth 8, (w >>> 24).setWidth 8]

/-- the 256 bytes of a batch (`[[u32; 16]; 4]` viewed as bytes, little-endian) -/
def batchBytes (b : St W32 × St W32 × St W32 × St W32) : List (BitVec 8) :=
  (b.1.words ++ b.2.1.words ++ b.2.2.1.words ++ b.2.2.2.words).flatMap wordBytes

end Urandom.ChaCha
