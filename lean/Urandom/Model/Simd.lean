import Urandom.Model.ChaCha
/-
A register machine over vectors of 32-bit lanes: the target of `tools/extract_simd.py`, which translates the
three `block` functions of `src/rng/chacha/{slp,sse2,avx2}.rs` into programs of this machine on every run
(`Urandom/Generated/Simd.lean`).  What is hand-written - and trusted - here is the meaning of the instructions,
i.e. of the SSE2 / AVX2 intrinsics the code uses (Intel's pseudo-code, on lists of lanes, lane 0 first):

  add / xor / or        `_mm[256]_add_epi32`, `_mm[256]_xor_si128/256`, `_mm[256]_or_si128/256`: lane-wise
  slli / srli           `_mm[256]_slli_epi32`, `_mm[256]_srli_epi32`: every lane shifted by the immediate
  shuf                  `_mm[256]_shuffle_epi32`: in every 128-bit group, lane i := lane (imm >> 2i) & 3 of the group
  setr                  `_mm256_setr_m128i(lo, hi)`: concatenation
  perm128               `_mm256_permute2x128_si256(a, b, imm)`: each half selected by a nibble of imm (bit 3: zero)
  load                  `_mm_loadu_si128(words.offset(row))` / `words[row]`: four consecutive words of an input block
  store                 `_mm[256]_storeu_si128/256` / `ws[i] = [..]`: the lanes, to consecutive output words
  lanes                 an array literal of scalar lane expressions (the portable back end's helper fns)
  mov                   `let` / assignment

Registers that the translator allocated inside the loop body are block-scoped `let`s of the Rust code: they do
not carry a value from one iteration to the next, which the machine makes explicit by clearing them.
-/
namespace Urandom.Simd
open Urandom Urandom.ChaCha

/-- what the machine needs of a lane: the 32-bit words of the real thing, or symbolic terms for the proof by reflection
(`Lemmas/SimdProof.lean`) -/
class LaneOps (α : Type) where
  zero : α
  add : α → α → α
  xor : α → α → α
  or : α → α → α
  shl : α → Nat → α
  shr : α → Nat → α

instance : LaneOps W32 := ⟨0, (· + ·), (· ^^^ ·), (· ||| ·), (· <<< ·), (· >>> ·)⟩

abbrev Vec (α : Type) := List α

/-- scalar lane expressions (portable back end) -/
inductive SExp where
  | arg (v lane : Nat)
  | add (x y : SExp)
  | xor (x y : SExp)
  | or (x y : SExp)
  | shl (x : SExp) (k : Nat)
  | shr (x : SExp) (k : Nat)

section machine
variable {α : Type} [LaneOps α]

def SExp.eval (args : List (Vec α)) : SExp → α
  | .arg v l => (args.getD v []).getD l LaneOps.zero
  | .add x y => LaneOps.add (x.eval args) (y.eval args)
  | .xor x y => LaneOps.xor (x.eval args) (y.eval args)
  | .or x y => LaneOps.or (x.eval args) (y.eval args)
  | .shl x k => LaneOps.shl (x.eval args) k
  | .shr x k => LaneOps.shr (x.eval args) k

end machine

inductive Instr where
  | load (d blk row : Nat)
  | mov (d s : Nat)
  | add (d x y : Nat)
  | xor (d x y : Nat)
  | or (d x y : Nat)
  | slli (d s k : Nat)
  | srli (d s k : Nat)
  | shuf (d s imm : Nat)
  | setr (d x y : Nat)
  | perm128 (d x y imm : Nat)
  | lanes (d : Nat) (srcs : List Nat) (es : List SExp)
  | store (word s : Nat)

structure Prog where
  nRegs : Nat
  /-- input block `i` is `state.add_counter(ctrOffsets[i]).get_state()` -/
  ctrOffsets : List Nat
  /-- `state.set_counter(state.get_counter().wrapping_add(ctrStep))` -/
  ctrStep : Nat
  /-- `for _ in 0..N / loopDiv` -/
  loopDiv : Nat
  loopLocal : List Nat
  /-- hints for the proof (re-established there by evaluation): registers carried around the loop, and which rows
  of which input block every register holds when the loop is entered -/
  live : List Nat
  layout : List (List (Nat × Nat))
  pre : List Instr
  body : List Instr
  post : List Instr

structure M (α : Type) where
  regs : List (Vec α)
  out : List α
deriving DecidableEq

section machine
variable {α : Type} [LaneOps α]

def shufVec (v : Vec α) (imm : Nat) : Vec α :=
  (List.range v.length).map fun i => v.getD (4 * (i / 4) + (imm >>> (2 * (i % 4))) % 4) LaneOps.zero

def permSel (x y : Vec α) (c : Nat) : Vec α :=
  if c / 8 % 2 = 1 then List.replicate 4 LaneOps.zero
  else match c % 4 with
    | 0 => x.take 4
    | 1 => x.drop 4
    | 2 => y.take 4
    | _ => y.drop 4

def storeAt (out : List α) (word : Nat) (v : Vec α) : List α :=
  out.take word ++ v ++ out.drop (word + v.length)

def exec (W : List (List α)) (m : M α) : Instr → M α
  | .load d blk row => { m with regs := m.regs.set d (((W.getD blk []).drop (4 * row)).take 4) }
  | .mov d s => { m with regs := m.regs.set d (m.regs.getD s []) }
  | .add d x y => { m with regs := m.regs.set d (List.zipWith LaneOps.add (m.regs.getD x []) (m.regs.getD y [])) }
  | .xor d x y => { m with regs := m.regs.set d (List.zipWith LaneOps.xor (m.regs.getD x []) (m.regs.getD y [])) }
  | .or d x y => { m with regs := m.regs.set d (List.zipWith LaneOps.or (m.regs.getD x []) (m.regs.getD y [])) }
  | .slli d s k => { m with regs := m.regs.set d ((m.regs.getD s []).map fun x => LaneOps.shl x k) }
  | .srli d s k => { m with regs := m.regs.set d ((m.regs.getD s []).map fun x => LaneOps.shr x k) }
  | .shuf d s imm => { m with regs := m.regs.set d (shufVec (m.regs.getD s []) imm) }
  | .setr d x y => { m with regs := m.regs.set d (m.regs.getD x [] ++ m.regs.getD y []) }
  | .perm128 d x y imm =>
      { m with regs := m.regs.set d (permSel (m.regs.getD x []) (m.regs.getD y []) (imm % 16) ++
                                      permSel (m.regs.getD x []) (m.regs.getD y []) (imm / 16 % 16)) }
  | .lanes d srcs es => { m with regs := m.regs.set d (es.map (SExp.eval (srcs.map fun r => m.regs.getD r []))) }
  | .store word s => { m with out := storeAt m.out word (m.regs.getD s []) }

def execAll (W : List (List α)) (m : M α) (is : List Instr) : M α := is.foldl (exec W) m

def clear (locals : List Nat) (m : M α) : M α := { m with regs := locals.foldl (fun rs r => rs.set r []) m.regs }

/-- one trip round the loop -/
def Prog.iter (p : Prog) (W : List (List α)) (m : M α) : M α := clear p.loopLocal (execAll W m p.body)

/-- the whole `block` body on the input blocks `W` with `n` loop iterations: the 64 output words -/
def Prog.run (p : Prog) (n : Nat) (W : List (List α)) : List α :=
  let m0 : M α := ⟨List.replicate p.nRegs [], List.replicate 64 LaneOps.zero⟩
  let m1 := clear p.loopLocal (execAll W m0 p.pre)
  let m2 := iterN (p.iter W) n m1
  (execAll W m2 p.post).out

end machine

/-- `block::<N>(state, ws)` as translated: the output words and the state afterwards -/
def Prog.block (p : Prog) (N : Nat) (s : State) : List W32 × State :=
  let W := p.ctrOffsets.map fun k => (s.addCounter (BitVec.ofNat 64 k)).getState.words
  (p.run (N / p.loopDiv) W, s.setCounter (s.getCounter + BitVec.ofNat 64 p.ctrStep))

end Urandom.Simd
