import Urandom.Model.Word
/-
The published reference algorithms, transcribed in the style of their C sources, and the
*declarative* semantics of an operation history against which C01 is stated:

  the generator is a state sequence  s₀, T s₀, T² s₀, …  together with output functions of the
  current state; `fill n` emits the first `n` bytes of the little-endian serialisation of the
  next ⌈n/8⌉ 64-bit outputs and advances exactly ⌈n/8⌉ steps.

References: S. Vigna, `splitmix64.c`, `xoshiro256plusplus.c`, `xoshiro256plus.c`
(https://prng.di.unimi.it/); Wang Yi, `wyhash.h` (final version 4.2), `wyrand`.
-/
namespace Urandom.Spec

/-! #### splitmix64.c
```c
uint64_t next() {
	uint64_t z = (x += 0x9e3779b97f4a7c15);
	z = (z ^ (z >> 30)) * 0xbf58476d1ce4e5b9;
	z = (z ^ (z >> 27)) * 0x94d049bb133111eb;
	return z ^ (z >> 31);
}
``` -/
def splitmix64 (x : BitVec 64) : BitVec 64 × BitVec 64 :=
  let x := x + 0x9e3779b97f4a7c15#64
  let z := x
  let z := (z ^^^ (z >>> 30)) * 0xbf58476d1ce4e5b9#64
  let z := (z ^^^ (z >>> 27)) * 0x94d049bb133111eb#64
  (z ^^^ (z >>> 31), x)

/-! #### xoshiro256plusplus.c / xoshiro256plus.c
```c
static inline uint64_t rotl(const uint64_t x, int k) { return (x << k) | (x >> (64 - k)); }
uint64_t next(void) {
	const uint64_t result = rotl(s[0] + s[3], 23) + s[0];     // ++   (plus: s[0] + s[3])
	const uint64_t t = s[1] << 17;
	s[2] ^= s[0]; s[3] ^= s[1]; s[1] ^= s[2]; s[0] ^= s[3];
	s[2] ^= t;
	s[3] = rotl(s[3], 45);
	return result;
}
``` -/
def rotl (x : BitVec 64) (k : Nat) : BitVec 64 := (x <<< k) ||| (x >>> (64 - k))

open Urandom.Xoshiro (S)

def xoshiroT (s : S) : S :=
  let t := s.s1 <<< 17
  let s2 := s.s2 ^^^ s.s0
  let s3 := s.s3 ^^^ s.s1
  let s1 := s.s1 ^^^ s2
  let s0 := s.s0 ^^^ s3
  let s2 := s2 ^^^ t
  let s3 := rotl s3 45
  ⟨s0, s1, s2, s3⟩

def xoshiroPlusPlus (s : S) : BitVec 64 × S := (rotl (s.s0 + s.s3) 23 + s.s0, xoshiroT s)
def xoshiroPlus (s : S) : BitVec 64 × S := (s.s0 + s.s3, xoshiroT s)

/-! ```c
void jump(void) {
	static const uint64_t JUMP[] = { 0x180ec6d33cfd0aba, 0xd5a61266f0c9392c, 0xa9582618e03fc9aa, 0x39abdc4529b1661c };
	uint64_t s0 = 0, s1 = 0, s2 = 0, s3 = 0;
	for(int i = 0; i < sizeof JUMP / sizeof *JUMP; i++)
		for(int b = 0; b < 64; b++) {
			if (JUMP[i] & UINT64_C(1) << b) { s0 ^= s[0]; s1 ^= s[1]; s2 ^= s[2]; s3 ^= s[3]; }
			next();
		}
	s[0] = s0; s[1] = s1; s[2] = s2; s[3] = s3;
}
``` -/
def xoshiroJump (s : S) : S :=
  let JUMP : List (BitVec 64) := [0x180ec6d33cfd0aba#64, 0xd5a61266f0c9392c#64, 0xa9582618e03fc9aa#64, 0x39abdc4529b1661c#64]
  let inner (w : BitVec 64) (st : S × S) : S × S :=
    (List.range 64).foldl (fun (st : S × S) b =>
      let acc := if w &&& (1#64 <<< b) != 0
        then (⟨st.2.s0 ^^^ st.1.s0, st.2.s1 ^^^ st.1.s1, st.2.s2 ^^^ st.1.s2, st.2.s3 ^^^ st.1.s3⟩ : S) else st.2
      (xoshiroT st.1, acc)) st
  (JUMP.foldl (fun st w => inner w st) (s, ⟨0#64, 0#64, 0#64, 0#64⟩)).2

/-- State expansion: "we suggest to use a SplitMix64 generator to fill the state". -/
def xoshiroSeed (seed : BitVec 64) : S :=
  let (a, x) := splitmix64 seed
  let (b, x) := splitmix64 x
  let (c, x) := splitmix64 x
  let (d, _) := splitmix64 x
  ⟨a, b, c, d⟩

/-! #### wyhash.h
```c
static inline void _wymum(uint64_t *A, uint64_t *B){ __uint128_t r=*A; r*=*B; *A=(uint64_t)r; *B=(uint64_t)(r>>64); }
static inline uint64_t _wymix(uint64_t A, uint64_t B){ _wymum(&A,&B); return A^B; }
static inline uint64_t wyrand(uint64_t *seed){ *seed+=0x2d358dccaa6c78a5ull; return _wymix(*seed,*seed^0x8bb84b93962eacc9ull);}
``` -/
def wymix (a b : BitVec 64) : BitVec 64 :=
  let r : BitVec 128 := a.setWidth 128 * b.setWidth 128
  r.setWidth 64 ^^^ (r >>> 64).setWidth 64

def wyrand (seed : BitVec 64) : BitVec 64 × BitVec 64 :=
  let seed := seed + 0x2d358dccaa6c78a5#64
  (wymix seed (seed ^^^ 0x8bb84b93962eacc9#64), seed)

/-! #### Declarative history semantics -/

/-- A reference generator: transition, 64-bit output, the word that feeds 32-bit outputs and
floats (its high half / high bits), and the jump function. -/
structure Ref (σ : Type) where
  T : σ → σ
  out64 : σ → BitVec 64
  /-- the word whose upper bits give `next_u32`, `next_f32` and `next_f64` (`xoshiro256+` for Xoshiro,
  the ordinary output for the other two) -/
  outHi : σ → BitVec 64
  /-- the word whose upper 52 bits give `next_f64` -/
  J : σ → σ

def iter {α : Type} (f : α → α) : Nat → α → α
  | 0, a => a
  | n+1, a => iter f n (f a)

/-- the next `k` 64-bit outputs -/
def Ref.outputs {σ : Type} (r : Ref σ) : Nat → σ → List (BitVec 64)
  | 0, _ => []
  | k+1, s => r.out64 s :: r.outputs k (r.T s)

/-- the byte stream: little-endian serialisation of the successive 64-bit outputs -/
def Ref.byteStream {σ : Type} (r : Ref σ) (k : Nat) (s : σ) : List Byte :=
  (r.outputs k s).flatMap (fun v => leBytes v 8)

def hi32 (v : BitVec 64) : BitVec 32 := (v >>> 32).setWidth 32

def Ref.step {σ : Type} (r : Ref σ) (s : σ) : Op → Out × σ
  | .u64 => (.w64 (r.out64 s), r.T s)
  | .u32 => (.w32 (hi32 (r.outHi s)), r.T s)
  | .f32 => (.f32 (0x3F800000#32 ||| (hi32 (r.outHi s) >>> 9)), r.T s)
  | .f64 => (.f64 (0x3FF0000000000000#64 ||| (r.outHi s >>> 12)), r.T s)
  | .fill n => (.bytes ((r.byteStream ((n + 7) / 8) s).take n), iter r.T ((n + 7) / 8) s)
  | .jump => (.unit, r.J s)
  | .clone => (.cloned (r.out64 s) (r.out64 (r.T s)), s)
  | .split => (.child (r.out64 s), r.J s)

def Ref.run {σ : Type} (r : Ref σ) (s : σ) : List Op → List Out × σ
  | [] => ([], s)
  | op :: ops =>
      let (o, s') := r.step s op
      let (os, s'') := r.run s' ops
      (o :: os, s'')

def xoshiroRef : Ref S where
  T := xoshiroT
  out64 s := (xoshiroPlusPlus s).1
  outHi s := (xoshiroPlus s).1
  J := xoshiroJump

def splitmixRef : Ref (BitVec 64) where
  T x := (splitmix64 x).2
  out64 x := (splitmix64 x).1
  outHi x := (splitmix64 x).1
  J x := iter (fun x => (splitmix64 x).2) (2 ^ 40) x

def wyrandRef : Ref (BitVec 64) where
  T x := (wyrand x).2
  out64 x := (wyrand x).1
  outHi x := (wyrand x).1
  J x := iter (fun x => (wyrand x).2) (2 ^ 40) x

end Urandom.Spec
