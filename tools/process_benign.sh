#!/bin/bash
# usage: process_benign.sh <agent worktree> <benign id> <prop>...
# A BENIGN change alters observable behaviour but preserves the property. Confirms (suite passes; demo: behaviour_differs fails, property_* pass with the
# change), files it under /verif/benign/<id>/, applies it to /repo, runs the quick checks and reports: exit 0 / no-failing-input-found are fine,
# a VIOLATION that claims a failing input is a FALSE CLAIM of an oracle.
SRC=$1; ID=$2; shift 2
W=/tmp/confirm-$ID
rm -rf $W; git -C /repo worktree prune; git -C /repo worktree add -q --detach $W HEAD || exit 1
cd $W; mkdir -p tests; cp $SRC/demo/*.rs tests/ 2>/dev/null
FEATS=""; grep -q "serde" $SRC/demo/README.md 2>/dev/null && FEATS="--features serde"
echo "== demo WITHOUT the change"; cargo test --offline $FEATS --test demo 2>&1 | grep -E "^test result|^test .*FAILED|error(\[|:)" | head -4
git apply $SRC/patch.diff || { echo "PATCH DOES NOT APPLY"; exit 1; }
echo "== pinned suite WITH the change (unit + doc tests)"; for t in 1 2 3; do OUT=$(cargo test --workspace --no-fail-fast --offline --lib 2>&1; cargo test --workspace --no-fail-fast --offline --doc 2>&1); echo "$OUT" | grep -E "^test result" | head -3 | tr '\n' ' '; echo; echo "$OUT" | grep -q "FAILED" || break; echo "$OUT" | grep -E "^test .* FAILED|^---- " | head -5; done
echo "== demo WITH the change (behaviour_differs must fail, property_* must pass)"; cargo test --offline $FEATS --test demo 2>&1 | grep -E "^test result|^test .*(FAILED|ok)$" | head -20
cd /; git -C /repo worktree remove --force $W
mkdir -p /verif/benign/$ID; cp $SRC/patch.diff /verif/benign/$ID/; cp -r $SRC/demo /verif/benign/$ID/ 2>/dev/null; cp $SRC/meta.json /verif/benign/$ID/meta.agent.json 2>/dev/null
git -C /repo worktree remove --force $SRC 2>/dev/null; git -C /repo worktree prune
cd /verif
git -C /repo status --porcelain | grep -q . && { echo "/repo not clean"; exit 2; }
git -C /repo apply /verif/benign/$ID/patch.diff || exit 2
for P in "$@"; do VERIF_NO_EVIDENCE=1 ./check.py $P --tier quick 2>&1 | grep -v "^KNOWN" | tail -2
python3 - $P <<'PY'
import json,sys,os,time
f='/verif/replays/%s-quick-1.json'%sys.argv[1]
if os.path.exists(f) and time.time()-os.path.getmtime(f)<150:
    v=json.load(open(f)); d=v.get('failing_input') or v.get('first_disagreement') or {}
    claim = not v.get('no_failing_input_found')
    print('  >', 'FALSE CLAIM?' if claim else 'ok (no failing input claimed):', v['kind'], '|', d.get('request','')[:150]); print('  > impl', d.get('impl','')[:90], '| model', d.get('model','')[:90]); print('  >', (d.get('oracle') or v.get('what_no_longer_checks') or '')[:300], '| others', v.get('others'))
else: print('  > no violation reported by %s' % sys.argv[1])
PY
done
git -C /repo checkout -- . ; git -C /repo clean -fdq -- src; git -C /repo status --porcelain
