#!/usr/bin/env python3
"""Regenerates /verif/MANIFEST.json from the table below (keeps it valid at all times)."""
import json, os, sys
sys.path.insert(0, os.path.dirname(os.path.abspath(__file__)))
V = os.path.dirname(os.path.dirname(os.path.abspath(__file__)))
props = [json.loads(l) for l in open(os.path.join(V, "properties.jsonl"))]

# property -> (technique, level text, level note, design ref)
from claims import CLAIMED
NOT_YET = "check under construction (framework build in progress); will be claimed"

checks = []
for p in props:
    pid = p["id"]
    if pid in CLAIMED:
        tech, text, note, ref = CLAIMED[pid]
        checks.append({
            "property_id": pid,
            "quick_cmd": "./check.py %s --tier quick" % pid,
            "thorough_cmd": "./check.py %s --tier thorough" % pid,
            "evidence_file": "/verif/evidence/%s.json" % pid,
            "replay_cmd_template": "./check.py %s --replay {path}" % pid,
            "engine": "lean4-proof+correspondence",
            "level_claimed": {"category": "proof", "text": text, "design_ref": ref},
            "level_note": note,
            "technique": tech,
        })
m = {
 "version": 1,
 "setup_cmd": "./setup.sh",
 "hooks": {
  "guard": "casualx_urandom_verif",
  "enable": "RUSTFLAGS='--cfg casualx_urandom_verif' (set by vlib/common.py when it builds harness/ against /repo)",
  "baseline_off_cmd": "cd /repo && cargo test --workspace --no-fail-fast --offline",
  "source_commits": json.load(open(os.path.join(V, "tools", "hook_commits.json"))) if os.path.exists(os.path.join(V, "tools", "hook_commits.json")) else [],
  "add_only": True,
 },
 "engines": [{
  "name": "lean4-proof+correspondence", "path": "/verif/check.py",
  "serves_properties": sorted(CLAIMED),
  "kind_free_text": "Lean 4 theorems about a hand-written executable model (lean/Urandom), kernel-checked and axiom-audited on every run; the model is tied to /repo by a differential correspondence (Rust harness running the real crate vs the compiled Lean model driver on generated requests) plus data translated from the source on every run; property oracles search for a concrete failing input when either breaks",
 }],
 "checks": checks,
 "not_applicable": [{"property_id": p["id"], "reason": NOT_YET} for p in props if p["id"] not in CLAIMED],
 "notes": "See DESIGN.md. known_findings.json lists genuine defects (fixed / known).",
}
json.dump(m, open(os.path.join(V, "MANIFEST.json"), "w"), indent=1)
print("claimed:", sorted(CLAIMED))
