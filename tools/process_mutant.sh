#!/bin/bash
# usage: process_mutant.sh <agent worktree> <seeded id> <prop>...   confirm, remove the worktree, try the checks, print what the replay says
SRC=$1; ID=$2; shift 2
cd /verif
tools/confirm_mutant.sh $SRC $ID 2>&1 | tail -9
git -C /repo worktree remove --force $SRC 2>/dev/null; git -C /repo worktree prune
tools/try_seeded.sh $ID "$@" 2>&1 | tail -$((2*$#))
for p in "$@"; do python3 - $p <<'PY'
import json,sys,os,time
f='/verif/replays/%s-quick-1.json'%sys.argv[1]
if os.path.exists(f) and time.time()-os.path.getmtime(f)<150:
    v=json.load(open(f)); d=v.get('failing_input') or v.get('first_disagreement') or {}
    print('  >', v['kind'], '|', d.get('request','')[:170]); print('  > impl', d.get('impl','')[:90], '| model', d.get('model','')[:90]); print('  >', (d.get('oracle') or v.get('what_no_longer_checks') or '')[:260], '| others', v.get('others'))
else: print('  > (no fresh replay for %s)' % sys.argv[1])
PY
done
