#!/usr/bin/env python3
"""usage: seeded_meta.py <seeded id> <property> <detected summary...>  - writes seeded/<id>/meta.json from the agent's meta + my confirmation"""
import json, os, sys
sid, prop = sys.argv[1], sys.argv[2]
det = " ".join(sys.argv[3:])
d = os.path.join("/verif/seeded", sid)
a = {}
if os.path.exists(os.path.join(d, "meta.agent.json")):
    try:
        a = json.load(open(os.path.join(d, "meta.agent.json")))
    except Exception:
        a = {}
m = {
    "id": sid, "property": prop,
    "summary": a.get("summary", ""),
    "needs_to_manifest": a.get("needs_to_manifest", ""),
    "files_changed": a.get("files_changed", []),
    "origin": "written by a fresh sub-agent that saw only the property text and its own scratch worktree of /repo (nothing from /verif)",
    "confirmed_by_me": ["tools/confirm_mutant.sh: fresh scratch worktree of /repo HEAD; demo passes without the patch; `cargo test --workspace --no-fail-fast --offline --lib` 34 passed with the patch; demo fails with the patch; worktree removed"],
    "checked_with": "tools/try_seeded.sh %s %s  (git -C /repo apply patch.diff; ./check.py %s --tier quick; git -C /repo checkout -- .)" % (sid, prop, prop),
    "detected": det,
}
json.dump(m, open(os.path.join(d, "meta.json"), "w"), indent=1)
print("wrote", os.path.join(d, "meta.json"))
