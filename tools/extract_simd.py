#!/usr/bin/env python3
"""Translator for the three ChaCha block back ends (src/rng/chacha/{slp,sse2,avx2}.rs).

Each `block` function is a straight-line SIMD program around one counted loop.  It is parsed (a small Rust
subset: macro_rules! with expression parameters, helper fns returning lane arrays, let / destructuring,
assignments, one `for _ in 0..N / k` loop, unsafe blocks, pointer casts) and compiled to a register-machine
program over vectors of 32-bit lanes, emitted as DATA into lean/Urandom/Generated/Simd.lean.  The semantics of
the instructions (= of the intrinsics) is hand-written in lean/Urandom/Model/Simd.lean; the theorem that the
translated program computes four ChaCha blocks is re-proved against the regenerated data on every run.

Anything the translator does not recognise raises TranslateError (the check then reports that the proof
obligation cannot be regenerated)."""
import os, re, sys


class TranslateError(Exception):
    pass


# ------------------------------------------------------------------------------------------------ tokens
TOK = re.compile(r"\s+|//[^\n]*|/\*.*?\*/|\"[^\"]*\"|'[A-Za-z_]\w*|(?P<num>0x[0-9a-fA-F_]+|\d[\d_]*)(?:[iu](?:8|16|32|64|128|size))?|(?P<id>\$?[A-Za-z_][A-Za-z0-9_]*)|(?P<op><<|>>|\.\.|=>|::|->|[-+*/%^|&!=<>.,;:(){}\[\]#?])", re.S)


def tokenize(src):
    out, i = [], 0
    while i < len(src):
        m = TOK.match(src, i)
        if not m:
            raise TranslateError("cannot tokenize at %r" % src[i:i + 30])
        i = m.end()
        if m.group("num") is not None:
            out.append(("num", int(m.group("num").replace("_", ""), 0)))
        elif m.group("id") is not None:
            out.append(("id", m.group("id")))
        elif m.group("op") is not None:
            out.append(("op", m.group("op")))
    return out


OPEN = {"(": ")", "[": "]", "{": "}"}


def matching(toks, i):
    """index of the bracket closing toks[i]"""
    depth = 0
    for j in range(i, len(toks)):
        if toks[j][0] == "op" and toks[j][1] in OPEN:
            depth += 1
        elif toks[j][0] == "op" and toks[j][1] in OPEN.values():
            depth -= 1
            if depth == 0:
                return j
    raise TranslateError("unbalanced brackets")


def split_top(toks, sep):
    parts, cur, depth = [], [], 0
    for t in toks:
        if t[0] == "op" and t[1] in OPEN:
            depth += 1
        elif t[0] == "op" and t[1] in OPEN.values():
            depth -= 1
        if depth == 0 and t == ("op", sep):
            parts.append(cur)
            cur = []
        else:
            cur.append(t)
    parts.append(cur)
    return parts


# ------------------------------------------------------------------------------------------------ parser (expressions, statements)
class P:
    def __init__(self, toks):
        self.t, self.i = toks, 0

    def peek(self, k=0):
        return self.t[self.i + k] if self.i + k < len(self.t) else ("eof", None)

    def at(self, *ops):
        return self.peek()[0] == "op" and self.peek()[1] in ops

    def eat(self, kind, val=None):
        t = self.peek()
        if t[0] != kind or (val is not None and t[1] != val):
            raise TranslateError("expected %s %s, found %r (…%r)" % (kind, val, t, self.t[max(0, self.i - 4):self.i + 4]))
        self.i += 1
        return t[1]

    # precedence climbing:  |  ^  &  << >>  + -  * /  as  unary  postfix
    LEVELS = [["|"], ["^"], ["&"], ["<<", ">>"], ["+", "-"], ["*", "/", "%"]]

    def expr(self, lvl=0):
        if lvl == len(self.LEVELS):
            return self.cast()
        l = self.expr(lvl + 1)
        while self.peek()[0] == "op" and self.peek()[1] in self.LEVELS[lvl]:
            op = self.eat("op")
            r = self.expr(lvl + 1)
            l = ("bin", op, l, r)
        return l

    def cast(self):
        e = self.unary()
        while self.peek() == ("id", "as"):
            self.eat("id")
            ty = self.type_tokens()
            e = ("cast", e, ty)
        return e

    def type_tokens(self):
        """a type after `as` / `:` - collected up to the next token that cannot continue a type"""
        out = []
        while True:
            t = self.peek()
            if t[0] == "op" and t[1] in ("*", "&"):
                out.append(self.eat("op"))
            elif t == ("id", "const") or t == ("id", "mut") or t[0] == "id" and t[1] != "as":
                out.append(self.eat("id"))
                if self.at("::"):
                    out.append(self.eat("op"))
                    continue
                if out[-1] not in ("const", "mut"):
                    break
            elif t[0] == "op" and t[1] == "[":
                j = matching(self.t, self.i)
                out.append("[…]")
                self.i = j + 1
                break
            else:
                break
        return out

    def unary(self):
        if self.at("&"):
            self.eat("op")
            m = False
            if self.peek() == ("id", "mut"):
                self.eat("id")
                m = True
            return ("ref", m, self.unary())
        if self.at("-"):
            self.eat("op")
            return ("neg", self.unary())
        return self.postfix(self.primary())

    def args(self, close):
        out = []
        while not self.at(close):
            out.append(self.expr())
            if self.at(","):
                self.eat("op")
        self.eat("op", close)
        return out

    def primary(self):
        t = self.peek()
        if t[0] == "num":
            self.i += 1
            return ("num", t[1])
        if t == ("id", "unsafe"):
            self.eat("id")
            return self.block()
        if t[0] == "id":
            name = self.eat("id")
            while self.at("::"):
                self.eat("op")
                name += "::" + self.eat("id")
            if self.at("!"):
                self.eat("op")
                j = matching(self.t, self.i)
                inner = self.t[self.i + 1:j]
                self.i = j + 1
                return ("macro", name, [a for a in split_top(inner, ",") if a])
            if self.at("("):
                self.eat("op")
                return ("call", name, self.args(")"))
            return ("id", name)
        if self.at("("):
            self.eat("op")
            items = self.args(")")
            # a parenthesised expression or a tuple
            return items[0] if len(items) == 1 and self.t[self.i - 2] != ("op", ",") else ("tuple", items)
        if self.at("["):
            self.eat("op")
            return ("array", self.args("]"))
        if self.at("{"):
            return self.block()
        raise TranslateError("unexpected token %r" % (t,))

    def postfix(self, e):
        while True:
            if self.at("["):
                self.eat("op")
                idx = self.expr()
                self.eat("op", "]")
                e = ("index", e, idx)
            elif self.at("."):
                self.eat("op")
                m = self.eat("id")
                self.eat("op", "(")
                e = ("mcall", e, m, self.args(")"))
            else:
                return e

    def block(self):
        self.eat("op", "{")
        j = matching(self.t, self.i - 1)
        inner = P(self.t[self.i:j])
        self.i = j + 1
        return ("block",) + inner.body()

    def body(self):
        """statements and an optional tail expression, to the end of the token list"""
        stmts, tail = [], None
        while self.peek()[0] != "eof":
            if self.at(";"):
                self.eat("op")
                continue
            s = self.stmt()
            if self.at(";"):
                self.eat("op")
                stmts.append(s)
            elif self.peek()[0] == "eof":
                if s[0] == "expr":
                    tail = s[1]
                else:
                    stmts.append(s)
            elif s[0] in ("for",) or (s[0] == "expr" and s[1][0] in ("block", "macro")):
                stmts.append(s)          # block-like statements need no semicolon
            else:
                raise TranslateError("missing `;` after %r" % (s,))
        return stmts, tail

    def pattern(self):
        if self.at("["):
            self.eat("op")
            names = []
            while not self.at("]"):
                if self.peek() == ("id", "mut"):
                    self.eat("id")
                names.append(self.eat("id"))
                if self.at(","):
                    self.eat("op")
            self.eat("op", "]")
            return ("parr", names)
        if self.at("("):
            self.eat("op")
            names = []
            while not self.at(")"):
                if self.peek() == ("id", "mut"):
                    self.eat("id")
                names.append(self.eat("id"))
                if self.at(","):
                    self.eat("op")
            self.eat("op", ")")
            return ("ptup", names)
        if self.peek() == ("id", "mut"):
            self.eat("id")
        return ("pid", self.eat("id"))

    def stmt(self):
        if self.peek() == ("id", "let"):
            self.eat("id")
            pat = self.pattern()
            if self.at(":"):
                self.eat("op")
                # skip the type up to `=`
                while not self.at("="):
                    if self.peek()[0] == "op" and self.peek()[1] in OPEN:
                        self.i = matching(self.t, self.i) + 1
                    else:
                        self.i += 1
            self.eat("op", "=")
            return ("let", pat, self.expr())
        if self.peek() == ("id", "for"):
            self.eat("id")
            self.eat("id")                      # the loop variable (`_`)
            self.eat("id", "in")
            lo = self.expr(4)                   # additive level: stops before `..`
            self.eat("op", "..")
            # the upper bound ends at the `{` of the body
            j = self.i
            while not (self.t[j] == ("op", "{")):
                j += 1
            hi = P(self.t[self.i:j]).expr()
            self.i = j
            return ("for", lo, hi, self.block())
        e = self.expr()
        if self.at("="):
            self.eat("op")
            return ("assign", e, self.expr())
        return ("expr", e)


# ------------------------------------------------------------------------------------------------ source file -> macros, helper fns, block body
def parse_file(src):
    toks = tokenize(src)
    macros, fns, block_body = {}, {}, None
    i = 0
    while i < len(toks):
        t = toks[i]
        if t == ("id", "macro_rules") and toks[i + 1] == ("op", "!"):
            name = toks[i + 2][1]
            j = matching(toks, i + 3)
            inner = toks[i + 4:j]                      # ( params ) => { body } ;
            pe = matching(inner, 0)
            params = [p[0][1] for p in split_top(inner[1:pe], ",") if p]
            if inner[pe + 1] != ("op", "=>"):
                raise TranslateError("macro %s: expected =>" % name)
            be = matching(inner, pe + 2)
            rest = [x for x in inner[be + 1:] if x != ("op", ";")]
            if rest:
                raise TranslateError("macro %s has more than one rule" % name)
            macros[name] = (params, inner[pe + 3:be])
            i = j + 1
        elif t == ("id", "fn"):
            name = toks[i + 1][1]
            k = i + 2
            while toks[k] != ("op", "("):
                k += 1                                   # generics
            pe = matching(toks, k)
            params = [p[0][1] for p in split_top(toks[k + 1:pe], ",") if p]
            k = pe + 1
            while toks[k] != ("op", "{"):
                k += 1
            be = matching(toks, k)
            body = P(toks[k + 1:be]).body()
            if name == "block":
                block_body = (body, toks[be + 1:])
            else:
                fns[name] = (params, body)
            i = be + 1
        else:
            i += 1
    if block_body is None:
        raise TranslateError("no fn block")
    return macros, fns, block_body[0]


# ------------------------------------------------------------------------------------------------ compiler
INTR = {  # intrinsic -> (IR op, lanes of the result)
    "_mm_add_epi32": "add", "_mm256_add_epi32": "add",
    "_mm_xor_si128": "xor", "_mm256_xor_si256": "xor",
    "_mm_or_si128": "or", "_mm256_or_si256": "or",
    "_mm_slli_epi32": "slli", "_mm256_slli_epi32": "slli",
    "_mm_srli_epi32": "srli", "_mm256_srli_epi32": "srli",
    "_mm_shuffle_epi32": "shuf", "_mm256_shuffle_epi32": "shuf",
    "_mm256_setr_m128i": "setr", "_mm256_permute2x128_si256": "perm128",
    "_mm_loadu_si128": "load128", "_mm_storeu_si128": "store", "_mm256_storeu_si256": "store",
}


class Compiler:
    def __init__(self, macros, fns):
        self.macros, self.fns = macros, fns
        self.names = []            # register index -> descriptive name
        self.sections = {"pre": [], "body": [], "post": []}
        self.where = "pre"
        self.loop_local = []
        self.blocks = []           # counter offset of each input block
        self.loop_div = None
        self.ctr_step = None
        self.free, self.scopes, self.temps = [], [[]], [[]]

    # registers: a free list, so that the temporaries of one statement and the `let`s of one macro expansion / block are reused
    def new(self, name, named=False):
        if self.free:
            r = min(self.free)
            self.free.remove(r)
            self.names[r] += "/" + name
        else:
            self.names.append(name)
            r = len(self.names) - 1
        if self.where == "body" and r not in self.loop_local:
            self.loop_local.append(r)
        (self.scopes[-1] if named else self.temps[-1]).append(r)
        return r

    def release(self, regs, keep=()):
        for r in regs:
            if r in keep:
                self.temps[-1].append(r)        # the value of the block: now a temporary of the enclosing statement
            elif r not in self.free:
                self.free.append(r)

    def emit(self, *ins):
        self.sections[self.where].append(ins)

    # ---- integer expressions (immediates)
    def int_of(self, e, env):
        k = e[0]
        if k == "num":
            return e[1]
        if k == "id" and env.get(e[1], (None,))[0] == "int":
            return env[e[1]][1]
        if k == "bin":
            a, b = self.int_of(e[2], env), self.int_of(e[3], env)
            return {"|": a | b, "^": a ^ b, "&": a & b, "<<": a << b, ">>": a >> b, "+": a + b, "-": a - b, "*": a * b, "/": a // b if b else 0, "%": a % b if b else 0}[e[1]]
        raise TranslateError("not an integer constant: %r" % (e,))

    # ---- scalar lane expressions of the helper fns / array literals (slp)
    def sexp(self, e, vecs, env):
        """lane expression -> S-expression text; `vecs`: list of registers referenced (index = argument number)"""
        k = e[0]
        if k == "index":
            v = self.value(e[1], env)
            if v[0] != "reg":
                raise TranslateError("lane of a non-register %r" % (e,))
            if v[1] not in vecs:
                vecs.append(v[1])
            return "(.arg %d %d)" % (vecs.index(v[1]), self.int_of(e[2], env))
        if k == "mcall" and e[2] == "wrapping_add":
            return "(.add %s %s)" % (self.sexp(e[1], vecs, env), self.sexp(e[3][0], vecs, env))
        if k == "bin" and e[1] in ("^", "|"):
            return "(.%s %s %s)" % ({"^": "xor", "|": "or"}[e[1]], self.sexp(e[2], vecs, env), self.sexp(e[3], vecs, env))
        if k == "bin" and e[1] in ("<<", ">>"):
            return "(.%s %s %d)" % ({"<<": "shl", ">>": "shr"}[e[1]], self.sexp(e[2], vecs, env), self.int_of(e[3], env))
        raise TranslateError("unsupported lane expression %r" % (e,))

    # ---- values
    def value(self, e, env):
        k = e[0]
        if k == "id":
            if e[1] not in env:
                raise TranslateError("unknown name %s" % e[1])
            return env[e[1]]
        if k == "num":
            return ("int", e[1])
        if k == "ref":
            return self.value(e[2], env)
        if k == "cast":
            v = self.value(e[1], env)
            ty = "".join(e[2])
            if v[0] in ("blk", "out", "outblk", "ptr"):
                unit = 256 if "__m256i" in ty else 128 if "__m128i" in ty else None
                if unit is None:
                    return v                         # `as *const _`
                base = v if v[0] != "ptr" else v[1]
                return ("ptr", base, unit)
            raise TranslateError("cast of %r" % (v,))
        if k == "index":
            v = self.value(e[1], env)
            i = self.int_of(e[2], env)
            if v[0] == "blk":                        # words1[0]: a row of an input block
                d = self.new("row%d_%d" % (v[1], i))
                self.emit("load", d, v[1], i)
                return ("reg", d)
            if v[0] == "out":
                return ("outblk", i)
            if v[0] == "regs":
                return ("reg", v[1][i])
            raise TranslateError("index of %r" % (v,))
        if k == "mcall":
            return self.method(e, env)
        if k == "array":
            vals = [self.try_value(x, env) for x in e[1]]
            if all(v is not None and v[0] == "reg" for v in vals):
                return ("regs", [v[1] for v in vals])
            # an array of lane expressions
            vecs = []
            es = [self.sexp(x, vecs, env) for x in e[1]]
            d = self.new("lanes")
            self.emit("lanes", d, list(vecs), es)
            return ("reg", d)
        if k == "tuple":
            return ("regs", [self.value(x, env)[1] for x in e[1]])
        if k == "block":
            return self.run_block(e, dict(env))
        if k == "macro":
            return self.expand(e, env)
        if k == "call":
            return self.call(e, env)
        if k == "bin":
            return ("int", self.int_of(e, env))
        raise TranslateError("unsupported expression %r" % (e,))

    def try_value(self, e, env):
        if e[0] == "id" and e[1] in env:
            return env[e[1]]
        return None

    def method(self, e, env):
        recv, m, args = e[1], e[2], e[3]
        if m == "get_state":
            # state.get_state()  /  state.add_counter(k).get_state()
            if recv == ("id", "state"):
                off = 0
            elif recv[0] == "mcall" and recv[2] == "add_counter" and recv[1] == ("id", "state"):
                off = self.int_of(recv[3][0], env)
            else:
                raise TranslateError("get_state on %r" % (recv,))
            self.blocks.append(off)
            return ("blk", len(self.blocks) - 1)
        if m == "offset":
            p = self.value(recv, env)
            if p[0] != "ptr":
                raise TranslateError("offset on %r" % (p,))
            return ("ptrat", p[1], p[2], self.int_of(args[0], env))
        if m == "as_mut_ptr":
            return self.value(recv, env)
        raise TranslateError("unsupported method %s" % m)

    def call(self, e, env):
        name, args = e[1], e[2]
        if name == "mem::transmute":
            return self.value(args[0], env)
        if name in self.fns:
            params, (stmts, tail) = self.fns[name]
            if stmts or tail is None or tail[0] != "array":
                raise TranslateError("helper fn %s is not a single lane array" % name)
            fenv = {}
            for p, a in zip(params, args):
                fenv[p] = self.value(a, env)
            vecs = []
            es = [self.sexp(x, vecs, fenv) for x in tail[1]]
            d = self.new(name)
            self.emit("lanes", d, list(vecs), es)
            return ("reg", d)
        op = INTR.get(name)
        if op is None:
            raise TranslateError("unknown function %s" % name)
        if op in ("add", "xor", "or"):
            x, y = self.reg(args[0], env), self.reg(args[1], env)
            d = self.new(op)
            self.emit(op, d, x, y)
            return ("reg", d)
        if op in ("slli", "srli", "shuf"):
            x = self.reg(args[0], env)
            d = self.new(op)
            self.emit(op, d, x, self.int_of(args[1], env))
            return ("reg", d)
        if op == "setr":
            x, y = self.reg(args[0], env), self.reg(args[1], env)
            d = self.new(op)
            self.emit(op, d, x, y)
            return ("reg", d)
        if op == "perm128":
            x, y = self.reg(args[0], env), self.reg(args[1], env)
            d = self.new(op)
            self.emit(op, d, x, y, self.int_of(args[2], env))
            return ("reg", d)
        if op == "load128":
            p = self.value(args[0], env)
            if p[0] != "ptrat" or p[1][0] != "blk" or p[2] != 128:
                raise TranslateError("load from %r" % (p,))
            d = self.new("row%d_%d" % (p[1][1], p[3]))
            self.emit("load", d, p[1][1], p[3])
            return ("reg", d)
        if op == "store":
            p = self.value(args[0], env)
            s = self.reg(args[1], env)
            if p[0] != "ptrat":
                raise TranslateError("store to %r" % (p,))
            base, unit, k = p[1], p[2], p[3]
            word = (16 * base[1] if base[0] == "outblk" else 0) + (unit // 32) * k
            self.emit("store", word, s)
            return ("unit",)
        raise TranslateError("unhandled intrinsic %s" % name)

    def reg(self, e, env):
        v = self.value(e, env)
        if v[0] != "reg":
            raise TranslateError("expected a vector register, got %r from %r" % (v, e))
        return v[1]

    def expand(self, e, env):
        name, args = e[1], e[2]
        if name not in self.macros:
            raise TranslateError("unknown macro %s!" % name)
        params, body = self.macros[name]
        if len(params) != len(args):
            raise TranslateError("macro %s!: %d arguments for %d parameters" % (name, len(args), len(params)))
        sub = dict(zip(params, args))
        toks = []
        for t in body:
            if t[0] == "id" and t[1] in sub:
                a = sub[t[1]]
                toks += a if len(a) == 1 else [("op", "(")] + a + [("op", ")")]     # `$x:expr` substitutes a whole expression
            else:
                toks.append(t)
        stmts, tail = P(toks).body()
        # a macro body is not a scope of its own for assignments to the caller's names, but its `let`s are local
        return self.run_block(("block", stmts, tail), env, scoped_lets=True)

    # ---- statements
    def run_block(self, blk, env, scoped_lets=False):
        local = dict(env) if scoped_lets else env
        self.scopes.append([])
        for s in blk[1]:
            self.stmt(s, local)
        v = self.value(blk[2], local) if blk[2] is not None else ("unit",)
        keep = [v[1]] if v[0] == "reg" else list(v[1]) if v[0] == "regs" else []
        self.release(self.scopes.pop(), keep)
        return v

    def bind(self, name, v, env):
        if v[0] == "reg":
            # a named register: give it its own slot so that later assignments do not alias another name
            d = self.new(name, named=True)
            self.emit("mov", d, v[1])
            env[name] = ("reg", d)
        else:
            env[name] = v

    def stmt(self, s, env):
        self.temps.append([])
        self.stmt1(s, env)
        self.release(self.temps.pop())

    def stmt1(self, s, env):
        k = s[0]
        if k == "let":
            pat, e = s[1], s[2]
            v = self.value(e, env)
            if pat[0] == "pid":
                self.bind(pat[1], v, env)
            else:
                if v[0] == "blk" and pat[0] == "parr":        # let [a, b, c, d] = words1;
                    regs = []
                    for i in range(len(pat[1])):
                        d = self.new("row%d_%d" % (v[1], i))
                        self.emit("load", d, v[1], i)
                        regs.append(d)
                    v = ("regs", regs)
                if v[0] != "regs" or len(v[1]) != len(pat[1]):
                    raise TranslateError("destructuring %r from %r" % (pat, v))
                for n, r in zip(pat[1], v[1]):
                    self.bind(n, ("reg", r), env)
        elif k == "assign":
            lhs, e = s[1], s[2]
            if lhs[0] == "id":
                if lhs[1] not in env or env[lhs[1]][0] != "reg":
                    raise TranslateError("assignment to %r" % (lhs,))
                r = self.reg(e, env)
                self.emit("mov", env[lhs[1]][1], r)
            elif lhs[0] == "index":                             # ws[i] = [a, b, c, d]   (slp)
                tgt = self.value(lhs, env)
                v = self.value(e, env)
                if tgt[0] != "outblk" or v[0] != "regs":
                    raise TranslateError("store %r = %r" % (tgt, v))
                for j, r in enumerate(v[1]):
                    self.emit("store", 16 * tgt[1] + 4 * j, r)
            else:
                raise TranslateError("assignment to %r" % (lhs,))
        elif k == "expr":
            e = s[1]
            if e[0] == "mcall" and e[2] == "set_counter":
                # state.set_counter(state.get_counter().wrapping_add(k))
                a = e[3][0]
                ok = (e[1] == ("id", "state") and a[0] == "mcall" and a[2] == "wrapping_add" and a[1] == ("mcall", ("id", "state"), "get_counter", []))
                if not ok or self.ctr_step is not None:
                    raise TranslateError("unrecognised counter update %r" % (e,))
                self.ctr_step = self.int_of(a[3][0], env)
            else:
                self.value(e, env)
        elif k == "for":
            lo, hi, body = s[1], s[2], s[3]
            if self.loop_div is not None or self.where != "pre":
                raise TranslateError("more than one loop")
            if self.int_of(lo, env) != 0 or hi[0] != "bin" or hi[1] != "/" or hi[2] != ("id", "N"):
                raise TranslateError("loop bounds %r .. %r" % (lo, hi))
            self.loop_div = self.int_of(hi[3], env)
            self.where = "body"
            self.run_block(body, dict(env))
            self.where = "post"
        else:
            raise TranslateError("statement %r" % (s,))


def translate(path):
    macros, fns, body = parse_file(open(path).read())
    c = Compiler(macros, fns)
    env = {"state": ("state",), "ws": ("out",)}
    c.run_block(("block",) + body, env)
    if c.loop_div is None or c.ctr_step is None or len(c.blocks) == 0:
        raise TranslateError("%s: loop / counter update / input blocks not found" % path)
    # where the rows of the input blocks sit when the loop is entered (pure data movement before the loop): a HINT for the
    # loop invariant of the Lean proof, which re-establishes it by evaluation (nothing here is trusted)
    lay = {}
    for ins in c.sections["pre"]:
        if ins[0] == "load":
            lay[ins[1]] = [(ins[2], ins[3])]
        elif ins[0] == "mov":
            lay[ins[1]] = list(lay.get(ins[2], []))
        elif ins[0] == "setr":
            lay[ins[1]] = list(lay.get(ins[2], [])) + list(lay.get(ins[3], []))
        elif ins[0] != "store":
            lay[ins[1]] = []
    c.layout = [lay.get(r, []) for r in range(len(c.names))]
    c.live = sorted({ins[1] for ins in c.sections["body"] if ins[0] != "store"} - set(c.loop_local))
    return c


def lean_instr(ins):
    op = ins[0]
    if op == "lanes":
        return ".lanes %d [%s] [%s]" % (ins[1], ", ".join(map(str, ins[2])), ", ".join(ins[3]))
    return ".%s %s" % (op, " ".join(map(str, ins[1:])))


def lean_prog(name, c):
    L = ["def %s : Prog where" % name,
         "  nRegs := %d" % len(c.names),
         "  ctrOffsets := [%s]" % ", ".join(map(str, c.blocks)),
         "  ctrStep := %d" % c.ctr_step,
         "  loopDiv := %d" % c.loop_div,
         "  loopLocal := [%s]" % ", ".join(map(str, c.loop_local)),
         "  live := [%s]" % ", ".join(map(str, c.live)),
         "  layout := [%s]" % ", ".join("[%s]" % ", ".join("(%d, %d)" % sg for sg in segs) for segs in c.layout)]
    for sec in ("pre", "body", "post"):
        L.append("  %s := [" % sec)
        L.append(",\n".join("    " + lean_instr(i) for i in c.sections[sec]))
        L.append("  ]")
    return "\n".join(L)


def generate(repo, out_dir, write):
    parts = ["import Urandom.Model.Simd",
             "/- GENERATED by tools/extract_simd.py from src/rng/chacha/{slp,sse2,avx2}.rs on every run - do not edit. -/",
             "namespace Urandom.Simd.Gen", "open Urandom.Simd", ""]
    for name, f in (("slp", "slp.rs"), ("sse2", "sse2.rs"), ("avx2", "avx2.rs")):
        c = translate(os.path.join(repo, "src/rng/chacha", f))
        parts.append("/-- `%s::block`, %d registers: %s -/" % (f[:-3], len(c.names), " ".join("%d=%s" % (i, n) for i, n in enumerate(c.names))[:1500]))
        parts.append(lean_prog(name, c))
        parts.append("")
    parts.append("end Urandom.Simd.Gen\n")
    write(os.path.join(out_dir, "Simd.lean"), "\n".join(parts))


if __name__ == "__main__":
    repo = os.environ.get("VERIF_REPO", "/repo")
    for f in ("slp.rs", "sse2.rs", "avx2.rs"):
        c = translate(os.path.join(repo, "src/rng/chacha", f))
        print(f, "regs", len(c.names), "pre", len(c.sections["pre"]), "body", len(c.sections["body"]), "post", len(c.sections["post"]),
              "blocks", c.blocks, "step", c.ctr_step, "div", c.loop_div, "looplocal", len(c.loop_local))
        if "-v" in sys.argv:
            print(lean_prog(f[:-3], c))
