#!/usr/bin/env python3
"""Translator for the floating-point parameter logic of Exp, Normal and LogNormal (src/distr/exp.rs, src/distr/normal.rs): the constructors
`try_new` / `try_from_mean_cv` (the documented parameter domain and the stored fields), `from_zscore`, and the value `Exp::sample` makes of the
unit-exponential draw.

The bodies live in the macros `impl_exp!`, `impl_normal!`, `impl_log_normal!`, invoked for f32 and f64 with the same text; the macro body is
translated ONCE, generic in the float format `f : Fmt`, into Lean definitions (Urandom/Generated/FloatDistr.lean) over the vocabulary of the
hand-written IEEE model (`Model/IEEE.lean`, `Model/FloatDistr.lean`): floats are their bit patterns (`Nat`), `a * b` is `mul f a b`, `a / b`
`div f a b`, `a + b` `add f a b`, `x.mul_add(a, b)` `fma f x a b`, `x.abs()` `abs f x`, `x.sqrt()` `sqrt f x`, `x.ln()` / `x.exp()` the libm
parameter `m.ln f x` / `m.exp f x`, `x.is_finite()` `isFinite f x`, the comparisons `ge f a b` etc. (IEEE: false on NaN), the literals 0.0,
1.0, 2.0 `c f n` and 0.5 `half f`; `if <cond> { return Err(E::V); }` is a conditional whose other branch is the rest of the body, `let x =
<call>?;` a match that propagates the error, `Ok(S { .. })` the stored fields.  `Props/C15T.lean` proves the model's constructors and
transforms EQUAL to these definitions, so which parameters are accepted, which error is returned and what is stored is the code's."""
import os, re, sys
sys.path.insert(0, os.path.dirname(os.path.abspath(__file__)))
from extract_simd import TranslateError, tokenize, matching, split_top
from extract_scalar import retok
from extract_effect import EP


def ftok(toks):
    """float literals, `||`, `&&`"""
    out, i = [], 0
    while i < len(toks):
        t = toks[i]
        if t[0] == "num" and toks[i + 1:i + 2] == [("op", ".")] and i + 2 < len(toks) and toks[i + 2][0] == "num" and not (out and out[-1] == ("op", ".")):
            out.append(("fnum", "%d.%d" % (t[1], toks[i + 2][1])))
            i += 3
            if toks[i:i + 1] in ([("id", "f64")], [("id", "f32")]):
                i += 1                      # `1.0f64`
        elif t in (("op", "|"), ("op", "&")) and toks[i + 1:i + 2] == [t]:
            out.append(("op", t[1] * 2))
            i += 2
        else:
            out.append(t)
            i += 1
    return out


class FP(EP):
    LEVELS = [["||"], ["&&"]] + EP.LEVELS


    def primary(self):
        if self.peek()[0] == "fnum":
            v = self.peek()[1]
            self.i += 1
            return ("fnum", v)
        if self.peek() == ("id", "if"):
            # an `if` used as a value: both blocks are single expressions
            self.eat("id")
            j = self.i
            while self.t[j] != ("op", "{"):
                j += 1
            cond = FP(self.t[self.i:j]).expr()
            self.i = j
            a = self.block()
            if self.peek() != ("id", "else"):
                raise TranslateError("an `if` value without else")
            self.eat("id")
            b = self.block()
            if a[1] or b[1] or a[2] is None or b[2] is None:
                raise TranslateError("an `if` value whose blocks are not single expressions")
            return ("ifx", cond, a[2], b[2])
        return EP.primary(self)

    def postfix(self, e):
        e = EP.postfix(self, e)
        while self.at("?"):
            self.eat("op")
            e = EP.postfix(self, ("try", e))
        return e

    def block(self):
        self.eat("op", "{")
        j = matching(self.t, self.i - 1)
        inner = FP(self.t[self.i:j])
        self.i = j + 1
        return ("block",) + inner.body()

    def stmt(self):
        if self.peek() == ("id", "if"):
            self.eat("id")
            j = self.i
            while self.t[j] != ("op", "{"):
                j += 1
            cond = FP(self.t[self.i:j]).expr()
            self.i = j
            then = self.block()
            els = None
            if self.peek() == ("id", "else"):
                self.eat("id")
                els = self.block()
            return ("if", cond, then, els)
        if self.peek() == ("id", "while"):
            self.eat("id")
            j = self.i
            while self.t[j] != ("op", "{"):
                j += 1
            cond = FP(self.t[self.i:j]).expr()
            self.i = j
            return ("while", cond, self.block())
        return EP.stmt(self)


LIT = {"0.0": "(c f 0)", "1.0": "(c f 1)", "2.0": "(c f 2)", "0.5": "(half f)"}
CMP = {">=": "ge", ">": "gt", "<": "lt", "<=": "le", "==": "eq"}
BIN = {"*": "mul", "/": "div", "+": "add", "-": "sub"}


class T:
    """one function body -> a Lean term"""

    def __init__(self, name, env, calls, structs):
        self.name, self.env, self.calls, self.structs = name, dict(env), calls, structs

    def val(self, e):
        k = e[0]
        if k == "fnum":
            if e[1] not in LIT:
                raise TranslateError("%s: float literal %s" % (self.name, e[1]))
            return LIT[e[1]]
        if k == "id":
            if e[1] not in self.env:
                raise TranslateError("%s: unknown name %s" % (self.name, e[1]))
            return self.env[e[1]]
        if k == "field" and e[1] == ("id", "self"):
            key = "self." + e[2]
            if key not in self.env:
                raise TranslateError("%s: field %s" % (self.name, e[2]))
            return self.env[key]
        if k == "bin" and e[1] in BIN:
            return "(%s f %s %s)" % (BIN[e[1]], self.val(e[2]), self.val(e[3]))
        if k == "neg":
            return "(neg f %s)" % self.val(e[1])
        if k == "ifx":
            return "(if %s then %s else %s)" % (self.cond(e[1]), self.val(e[2]), self.val(e[3]))
        if k == "mcall" and e[1] == ("id", "rand") and e[2] == "float01" and not e[3] and "\0draws" in self.env:
            self.env["\0draws"].append("f%d" % (len(self.env["\0draws"]) + 1))
            return self.env["\0draws"][-1]
        if k == "mcall":
            recv, m, args = e[1], e[2], e[3]
            if m == "from_zscore" and recv == ("field", ("id", "self"), "norm") and len(args) == 1:
                return "(normal_from_zscore f %s %s)" % (self.env["self.norm"], self.val(args[0]))
            r = self.val(recv)
            if m == "abs" and not args:
                return "(abs f %s)" % r
            if m == "sqrt" and not args:
                return "(sqrt f %s)" % r
            if m == "ln" and not args:
                return "(m.ln f %s)" % r
            if m == "exp" and not args:
                return "(m.exp f %s)" % r
            if m == "mul_add" and len(args) == 2:
                return "(fma f %s %s %s)" % (r, self.val(args[0]), self.val(args[1]))
            raise TranslateError("%s: method %s" % (self.name, m))
        raise TranslateError("%s: expression %r" % (self.name, e))

    def cond(self, e):
        k = e[0]
        if k == "not":
            return "¬ %s" % self.cond_atom(e[1])
        if k == "bin" and e[1] == "||":
            return "%s ∨ %s" % (self.cond(e[2]), self.cond(e[3]))
        if k == "bin" and e[1] == "&&":
            return "%s ∧ %s" % (self.cond_atom(e[2]), self.cond_atom(e[3]))
        return self.cond_atom(e)

    def cond_atom(self, e):
        if e[0] == "bin" and e[1] in CMP:
            return "%s f %s %s" % (CMP[e[1]], self.val(e[2]), self.val(e[3]))
        if e[0] == "mcall" and e[2] == "is_finite" and not e[3]:
            return "isFinite f %s" % self.val(e[1])
        if e[0] == "mcall" and e[2] == "is_nan" and not e[3]:
            return "isNaN f %s" % self.val(e[1])
        if e[0] == "not" or (e[0] == "bin" and e[1] in ("||", "&&")):
            return "(%s)" % self.cond(e)
        if e == ("id", "__checked"):
            return self.env["__checked"]
        raise TranslateError("%s: condition %r" % (self.name, e))

    def result(self, e, ind):
        """Ok(..) / Err(..)"""
        if e[0] == "call" and e[1] == "Err" and len(e[2]) == 1:
            p = e[2][0]
            v = p[1].split("::")[-1] if p[0] in ("id", "call") else None
            if p[0] == "id" and "::" in p[1]:
                return ".error .%s" % p[1].split("::")[-1]
            raise TranslateError("%s: error value %r" % (self.name, p))
        if e[0] == "call" and e[1] == "Ok" and len(e[2]) == 1 and e[2][0][0] == "struct":
            _, sname, fields = e[2][0]
            if sname not in self.structs:
                raise TranslateError("%s: struct %s" % (self.name, sname))
            want, fmt = self.structs[sname]
            got = {fn: (self.val(fe) if fe is not None else self.val(("id", fn))) for fn, fe in fields}
            if sorted(got) != sorted(want):
                raise TranslateError("%s: fields of %s: %r" % (self.name, sname, sorted(got)))
            return ".ok " + fmt % tuple(got[w] for w in want)
        raise TranslateError("%s: result %r" % (self.name, e))

    def term(self, stmts, tail, ind):
        pad = "  " * ind
        if not stmts:
            if tail is None:
                raise TranslateError("%s: a path without a value" % self.name)
            return pad + self.result(tail, ind)
        s, rest = stmts[0], stmts[1:]
        if s[0] == "return":
            return pad + self.result(s[1], ind)
        if s[0] == "let" and s[1][0] == "pid":
            name, e = s[1][1], s[2]
            if e[0] == "try":
                c = e[1]
                if not (c[0] == "call" and c[1] in self.calls):
                    raise TranslateError("%s: `?` on %r" % (self.name, c))
                app = "%s %s" % (self.calls[c[1]], " ".join(self.val(a) for a in c[2]))
                self.env[name] = name
                return "%smatch %s with\n%s| .error e => .error e\n%s| .ok %s =>\n%s" % (pad, app, pad, pad, name, self.term(rest, tail, ind + 1))
            v = self.val(e)
            self.env[name] = name
            return "%slet %s := %s\n%s" % (pad, name, v, self.term(rest, tail, ind))
        if s[0] == "if" and s[3] is None:
            blk = s[2]
            inner = list(blk[1])
            if blk[2] is not None:
                raise TranslateError("%s: an `if` block with a value" % self.name)
            if not inner or inner[-1][0] != "return":
                raise TranslateError("%s: an `if` block that does not return" % self.name)
            saved = dict(self.env)
            a = self.term(inner, None, ind + 1)
            self.env = saved
            return "%sif %s then\n%s\n%selse\n%s" % (pad, self.cond(s[1]), a, pad, self.term(rest, tail, ind + 1))
        raise TranslateError("%s: statement %r" % (self.name, s[0]))


def macro_body(src, name, types=("f32", "f64")):
    """the token list of the (single-arm) macro `name`, its parameter, and a check that it is invoked for exactly the given types"""
    text = re.sub(r"//[^\n]*", "", src)
    m = re.search(r"macro_rules!\s*%s\s*\{" % name, text)
    if not m:
        raise TranslateError("macro %s not found" % name)
    depth, j = 1, m.end()
    while depth:
        depth += {"{": 1, "}": -1}.get(text[j], 0)
        j += 1
    inner = text[m.end():j - 1]
    pm = re.match(r"\s*\(\s*(\$\w+)\s*:\s*ty\s*\)\s*=>\s*\{", inner)
    if not pm:
        raise TranslateError("macro %s: expected one arm ($x:ty) => { .. }" % name)
    k = inner.rindex("}")
    body = inner[pm.end():k]
    inv = re.findall(r"%s!\s*\(\s*(\w+)\s*\)\s*;" % name, text)
    if sorted(inv) != sorted(types):
        raise TranslateError("macro %s is invoked for %r" % (name, inv))
    toks = ftok(retok(tokenize(body)))
    return [("id", "F") if t == ("id", pm.group(1)) else t for t in toks]


def functions(toks):
    """name -> (param names, body tokens) for every `fn` in a token list"""
    out, i = {}, 0
    while i < len(toks):
        if toks[i] == ("id", "fn"):
            name = toks[i + 1][1]
            k = i + 2
            while toks[k] != ("op", "("):
                k += 1
            pe = matching(toks, k)
            params = []
            for p in [p for p in split_top(toks[k + 1:pe], ",") if p]:
                if p[0] == ("op", "&"):
                    params.append("self")
                else:
                    params.append(p[0][1] if p[0] != ("id", "mut") else p[1][1])
            k = pe + 1
            while toks[k] != ("op", "{"):
                k += 1
            be = matching(toks, k)
            if name in out:
                raise TranslateError("two functions named %s in one macro" % name)
            out[name] = (params, toks[k + 1:be])
            i = be + 1
        else:
            i += 1
    return out


STRUCTS = {"Exp": (["lambda_inverse"], "%s"), "Normal": (["mean", "std_dev"], "⟨%s, %s⟩"), "LogNormal": (["norm"], "%s")}


def define(name, sig, rty, fn, env, calls, value=False):
    params, body = fn
    stmts, tail = FP(body).body()
    t = T(name, env, calls, STRUCTS)
    if value:
        # a plain value: lets and a tail expression
        lines = []
        for s in stmts:
            if not (s[0] == "let" and s[1][0] == "pid"):
                raise TranslateError("%s: statement %r" % (name, s[0]))
            if s[1][1] in t.env and t.env[s[1][1]] == "\0draw":
                continue
            lines.append("  let %s := %s" % (s[1][1], t.val(s[2])))
            t.env[s[1][1]] = s[1][1]
        if tail is None:
            raise TranslateError("%s: no value" % name)
        return "def %s %s : %s :=\n%s\n" % (name, sig, rty, "\n".join(lines + ["  " + t.val(tail)]))
    return "def %s %s : %s :=\n%s\n" % (name, sig, rty, t.term(list(stmts), tail, 1))


def translate(repo):
    exp_src = open(os.path.join(repo, "src/distr/exp.rs")).read()
    nrm_src = open(os.path.join(repo, "src/distr/normal.rs")).read()
    out = []
    ex = functions(macro_body(exp_src, "impl_exp"))
    nm = functions(macro_body(nrm_src, "impl_normal"))
    ln = functions(macro_body(nrm_src, "impl_log_normal"))
    for fns, need, what in ((ex, ["try_new", "sample"], "impl_exp"), (nm, ["try_new", "try_from_mean_cv", "from_zscore", "sample"], "impl_normal"),
                            (ln, ["try_new", "try_from_mean_cv", "from_zscore", "sample"], "impl_log_normal")):
        if sorted(fns) != sorted(need):
            raise TranslateError("%s defines %r" % (what, sorted(fns)))
    # Exp
    if ex["try_new"][0] != ["lambda"]:
        raise TranslateError("Exp::try_new parameters %r" % (ex["try_new"][0],))
    out.append(define("exp_try_new", "(f : Fmt) (lambda : Nat)", "Except ExpError Nat", ex["try_new"], {"lambda": "lambda"}, {}))
    # sample: `let x: F = Exp1.sample(rand); x * self.lambda_inverse` - the draw is the parameter x
    ps, body = ex["sample"]
    stmts, tail = FP(body).body()
    if not (len(stmts) == 1 and stmts[0][0] == "let" and stmts[0][1][0] == "pid" and stmts[0][2] == ("mcall", ("id", "Exp1"), "sample", [("id", "rand")])):
        raise TranslateError("Exp::sample: expected `let x = Exp1.sample(rand); <value>`")
    x = stmts[0][1][1]
    out.append("def exp_sample_value (f : Fmt) (lambda_inverse %s : Nat) : Nat :=\n  %s\n" % (x, T("exp_sample_value", {x: x, "self.lambda_inverse": "lambda_inverse"}, {}, STRUCTS).val(tail)))
    # Normal
    if nm["try_new"][0] != ["mean", "std_dev"] or nm["try_from_mean_cv"][0] != ["mean", "cv"] or nm["from_zscore"][0] != ["self", "zscore"]:
        raise TranslateError("Normal: parameters")
    out.append(define("normal_try_new", "(f : Fmt) (mean std_dev : Nat)", "Except NormalError Normal", nm["try_new"], {"mean": "mean", "std_dev": "std_dev"}, {}))
    out.append(define("normal_try_from_mean_cv", "(f : Fmt) (mean cv : Nat)", "Except NormalError Normal", nm["try_from_mean_cv"], {"mean": "mean", "cv": "cv"}, {}))
    out.append(define("normal_from_zscore", "(f : Fmt) (d : Normal) (zscore : Nat)", "Nat", nm["from_zscore"],
                      {"zscore": "zscore", "self.mean": "d.mean", "self.std_dev": "d.stdDev"}, {}, value=True))
    ps, body = nm["sample"]
    stmts, tail = FP(body).body()
    if stmts or tail != ("mcall", ("id", "self"), "from_zscore", [("mcall", ("id", "StandardNormal"), "sample", [("id", "rand")])]):
        raise TranslateError("Normal::sample: expected self.from_zscore(StandardNormal.sample(rand))")
    # LogNormal (stored as its Normal)
    if ln["try_new"][0] != ["mu", "sigma"] or ln["try_from_mean_cv"][0] != ["mean", "cv"] or ln["from_zscore"][0] != ["self", "zscore"]:
        raise TranslateError("LogNormal: parameters")
    calls = {"Normal::try_new": "normal_try_new f"}
    out.append(define("lognormal_try_new", "(f : Fmt) (mu sigma : Nat)", "Except NormalError Normal", ln["try_new"], {"mu": "mu", "sigma": "sigma"}, calls))
    out.append(define("lognormal_try_from_mean_cv", "(m : Libm) (f : Fmt) (mean cv : Nat)", "Except NormalError Normal", ln["try_from_mean_cv"], {"mean": "mean", "cv": "cv"}, calls))
    out.append(define("lognormal_from_zscore", "(m : Libm) (f : Fmt) (d : Normal) (zscore : Nat)", "Nat", ln["from_zscore"],
                      {"zscore": "zscore", "self.norm": "d"}, {}, value=True))
    ps, body = ln["sample"]
    stmts, tail = FP(body).body()
    if stmts or tail != ("mcall", ("mcall", ("field", ("id", "self"), "norm"), "sample", [("id", "rand")]), "exp", []):
        raise TranslateError("LogNormal::sample: expected self.norm.sample(rand).exp()")
    return "\n".join(out)


def impl_block(text, pattern, what):
    m = re.search(pattern, text)
    if not m:
        raise TranslateError("float.rs: %s not found" % what)
    depth, j = 1, m.end()
    while depth:
        depth += {"{": 1, "}": -1}.get(text[j], 0)
        j += 1
    return text[m.end():j - 1]


def debug_only(toks):
    """`#[cfg(debug_assertions)] if COND {` -> `if __checked && (COND) {`: the statement exists in checked (debug) builds only"""
    attr = [("op", "#"), ("op", "["), ("id", "cfg"), ("op", "("), ("id", "debug_assertions"), ("op", ")"), ("op", "]")]
    out, i = [], 0
    while i < len(toks):
        if toks[i:i + len(attr)] == attr:
            if toks[i + len(attr)] != ("id", "if"):
                raise TranslateError("float.rs: #[cfg(debug_assertions)] on something else than an `if`")
            j = i + len(attr) + 1
            k = j
            while toks[k] != ("op", "{"):
                k += 1
            out += [("id", "if"), ("id", "__checked"), ("op", "&&"), ("op", "(")] + toks[j:k] + [("op", ")")]
            i = k
        elif toks[i:i + 2] == [("op", "#"), ("op", "[")]:
            i = matching(toks, i + 1) + 1             # other attributes (#[inline]) carry no meaning here
        else:
            out.append(toks[i])
            i += 1
    return out


def uniform_float(repo):
    """src/distr/uniform/float.rs: `try_new` (the non-finite check exists under debug_assertions only: the parameter `checked`),
    `try_new_inclusive` (must forward to `try_new`) and the value `sample` makes of its one unit-float draw, for f32 and f64"""
    text = re.sub(r"//[^\n]*", "", open(os.path.join(repo, "src/distr/uniform/float.rs")).read())
    out = []
    for ty in ("f32", "f64"):
        us = functions(debug_only(ftok(retok(tokenize(impl_block(text, r"impl\s+UniformSampler<%s>\s+for\s+UniformFloat<%s>\s*\{" % (ty, ty), "UniformSampler<%s>" % ty))))))
        ds = functions(debug_only(ftok(retok(tokenize(impl_block(text, r"impl\s+Distribution<%s>\s+for\s+UniformFloat<%s>\s*\{" % (ty, ty), "Distribution<%s>" % ty))))))
        if sorted(us) != ["try_new", "try_new_inclusive"] or sorted(ds) != ["sample"]:
            raise TranslateError("float.rs: functions %r / %r" % (sorted(us), sorted(ds)))
        if us["try_new"][0] != ["low", "high"] or us["try_new_inclusive"][0] != ["low", "high"]:
            raise TranslateError("float.rs: parameters")
        STRUCTS["UniformFloat"] = (["base", "scale"], "⟨%s, %s⟩")
        out.append(define("ufloat_try_new_%s" % ty, "(f : Fmt) (checked : Bool) (low high : Nat)", "Except UniformError UniformFloat", us["try_new"],
                          {"low": "low", "high": "high", "__checked": "checked"}, {}))
        stmts, tail = FP(us["try_new_inclusive"][1]).body()
        if stmts or tail != ("call", "Self::try_new", [("id", "low"), ("id", "high")]):
            raise TranslateError("float.rs: try_new_inclusive does not forward to try_new")
        stmts, tail = FP(ds["sample"][1]).body()
        draws = []

        class TD(T):
            def val(self, e):
                if e[0] == "mcall" and e[1] == ("id", "rand") and not e[3]:
                    draws.append(e[2])
                    return "u"
                return T.val(self, e)
        if stmts or tail is None:
            raise TranslateError("float.rs: sample is not one expression")
        v = TD("ufloat_sample_%s" % ty, {"self.base": "d.base", "self.scale": "d.scale"}, {}, STRUCTS).val(tail)
        if draws != ["next_" + ty]:
            raise TranslateError("float.rs: sample of %s draws %r" % (ty, draws))
        out.append("def ufloat_sample_%s (f : Fmt) (d : UniformFloat) (u : Nat) : Nat :=\n  %s\n" % (ty, v))
        out.append("def ufloat_sample_%s_draws : List String := [%s]\n" % (ty, ", ".join('"%s"' % d for d in draws)))
    return "\n".join(out)


def bernoulli(repo):
    """src/distr/bernoulli.rs: `new(p)` stores p as it is; `sample` compares ONE Float01 draw (as f64) with the stored p; and
    `Random::chance(p)` (src/random.rs) must be `distr::Bernoulli::new(p).sample(self)`"""
    text = re.sub(r"//[^\n]*", "", open(os.path.join(repo, "src/distr/bernoulli.rs")).read())
    text = text[:text.index("#[test]")] if "#[test]" in text else text
    toks = ftok(retok(tokenize(text)))
    draw = [("op", "<"), ("id", "Float01"), ("id", "as"), ("id", "Distribution"), ("op", "<"), ("id", "f64"), ("op", ">>"), ("op", "::"), ("id", "sample"),
            ("op", "("), ("op", "&"), ("id", "Float01"), ("op", ","), ("id", "rand"), ("op", ")")]
    out, i, n = [], 0, 0
    while i < len(toks):
        if toks[i:i + len(draw)] == draw:
            out.append(("id", "__float01_draw"))
            i += len(draw)
            n += 1
        else:
            out.append(toks[i])
            i += 1
    fns = functions(debug_only(out))
    if sorted(fns) != ["new", "p", "sample"] or n != 1:
        raise TranslateError("bernoulli.rs: functions %r, %d Float01 draws" % (sorted(fns), n))
    stmts, tail = FP(fns["new"][1]).body()
    if fns["new"][0] != ["p"] or stmts or tail != ("struct", "Bernoulli", [("p", None)]):
        raise TranslateError("bernoulli.rs: new(p) is not Bernoulli { p }")
    stmts, tail = FP(fns["sample"][1]).body()
    if stmts or tail is None:
        raise TranslateError("bernoulli.rs: sample is not one expression")
    c = T("bernoulli_sample", {"__float01_draw": "x", "self.p": "p"}, {}, STRUCTS).cond_atom(tail).replace(" f ", " b64 ")
    rtext = re.sub(r"//[^\n]*", "", open(os.path.join(repo, "src/random.rs")).read())
    m = re.search(r"pub fn chance\s*\(&mut self, p: f64\)\s*->\s*bool\s*\{([^}]*)\}", rtext)
    if not m or "".join(m.group(1).split()) != "distr::Bernoulli::new(p).sample(self)":
        raise TranslateError("random.rs: chance(p) is not distr::Bernoulli::new(p).sample(self)")
    return "def bernoulli_sample (x p : Nat) : Bool :=\n  %s\n" % c


class Z:
    """typed expressions of `ziggurat()`: u64 / usize values are `BitVec 64`, f64 values bit patterns (`Nat`, operations of the IEEE model in
    format b64), tables `Array Nat` indexed with `getD`"""
    FL = {"0.0": "(c b64 0)", "1.0": "(c b64 1)", "2.0": "(c b64 2)", "3.0": "(c b64 3)", "0.5": "(half b64)"}

    def __init__(self, env):
        self.env = dict(env)          # name -> (lean text, type)

    def ex(self, e, want=None):
        k = e[0]
        if k == "fnum":
            if e[1] not in self.FL:
                raise TranslateError("ziggurat: float literal %s" % e[1])
            return self.FL[e[1]], "f64"
        if k == "num":
            if want != "u64":
                raise TranslateError("ziggurat: cannot type the literal %d" % e[1])
            return "%d#64" % e[1], "u64"
        if k == "id":
            if e[1] == "f64::EPSILON":
                return "4372995238176751616", "f64"          # 0x3CB0000000000000 = 2^-52
            if e[1] not in self.env:
                raise TranslateError("ziggurat: unknown name %s" % e[1])
            return self.env[e[1]]
        if k == "cast":
            t, ty = self.ex(e[1], "u64")
            if ty != "u64" or e[2] not in (["usize"], ["u64"]):
                raise TranslateError("ziggurat: cast %r" % (e[2],))
            return t, "u64"
        if k == "ifx":
            c, cty = self.ex(e[1])
            a, aty = self.ex(e[2], want)
            b, bty = self.ex(e[3], want)
            if cty != "bool" or aty != bty:
                raise TranslateError("ziggurat: if value")
            return "(if %s then %s else %s)" % (c, a, b), aty
        if k == "index":
            t, ty = self.ex(e[1])
            i, ity = self.ex(e[2], "u64")
            if ty != "table" or ity != "u64":
                raise TranslateError("ziggurat: indexing %r" % (e,))
            return "(%s.getD (%s).toNat 0)" % (t, i), "f64"
        if k == "mcall" and e[2] == "abs" and not e[3]:
            t, ty = self.ex(e[1])
            if ty != "f64":
                raise TranslateError("ziggurat: abs of %s" % ty)
            return "(abs b64 %s)" % t, "f64"
        if k == "call" and e[1] == "into_float_with_exponent" and len(e[2]) == 2:
            a, aty = self.ex(e[2][0], "u64")
            b, bty = self.ex(e[2][1], "u64")
            return "(into_float %s %s)" % (a, b), "f64"
        if k == "call" and e[1] in self.env and self.env[e[1]][1] == "fn1" and len(e[2]) == 1:
            a, aty = self.ex(e[2][0], "f64")
            return "(%s %s)" % (self.env[e[1]][0], a), "f64"
        if k == "bin":
            op = e[1]
            l, lt = self.ex(e[2], want) if e[2][0] != "num" else (None, None)
            r, rt = self.ex(e[3], lt or want)
            if l is None:
                l, lt = self.ex(e[2], rt)
            if lt != rt:
                raise TranslateError("ziggurat: operands of %s: %s, %s" % (op, lt, rt))
            if lt == "f64" and op in BIN:
                return "(%s b64 %s %s)" % (BIN[op], l, r), "f64"
            if lt == "f64" and op in CMP:
                return "%s b64 %s %s" % (CMP[op], l, r), "bool"
            if lt == "u64" and op in ("&", "|", "+", "<<", ">>"):
                return "(%s %s %s)" % (l, {"&": "&&&", "|": "|||", "+": "+", "<<": "<<<", ">>": ">>>"}[op], r if op not in ("<<", ">>") else "(%s).toNat" % r), "u64"
            if lt == "u64" and op == "==":
                return "(%s == %s)" % (l, r), "bool"
            raise TranslateError("ziggurat: operator %s on %s" % (op, lt))
        raise TranslateError("ziggurat: expression %r" % (e,))


def ziggurat(repo):
    """src/distr/ziggurat.rs: the helper `into_float_with_exponent` and ONE trip round the loop of `ziggurat()` as a decision: `ret x` (the
    rectangle), `tail u` (layer 0: `zero_case(rand, u)`), `wedge x accept` (a `float01()` draw f01 is needed: `accept f01` returns x, otherwise
    the loop goes round again)."""
    text = re.sub(r"//[^\n]*", "", open(os.path.join(repo, "src/distr/ziggurat.rs")).read())
    toks = ftok(retok(tokenize(text)))
    fns = functions(debug_only(toks))
    if sorted(fns) != ["into_float_with_exponent", "ziggurat"]:
        raise TranslateError("ziggurat.rs: functions %r" % sorted(fns))
    ps, body = fns["into_float_with_exponent"]
    stmts, tail = FP(body).body()
    if ps != ["bits", "exp"] or stmts or not (tail and tail[0] == "call" and tail[1] == "f64::from_bits" and len(tail[2]) == 1):
        raise TranslateError("ziggurat.rs: into_float_with_exponent is not f64::from_bits(<expr>)")
    t, ty = Z({"bits": ("bits", "u64"), "exp": ("exp", "u64")}).ex(tail[2][0], "u64")
    out = ["def into_float (bits exp : BitVec 64) : Nat :=\n  (%s).toNat\n" % t]
    ps, body = fns["ziggurat"]
    if ps != ["rand", "symmetric", "x_tab", "f_tab", "pdf", "zero_case"]:
        raise TranslateError("ziggurat.rs: parameters %r" % (ps,))
    stmts, tail = FP(body).body()
    if not (len(stmts) == 1 and stmts[0][0] == "loop" and tail is None and stmts[0][1][2] is None):
        raise TranslateError("ziggurat.rs: the body is not one loop")
    z = Z({"symmetric": ("symmetric", "bool"), "x_tab": ("xTab", "table"), "f_tab": ("fTab", "table"), "pdf": ("pdf", "fn1")})
    lines, first = [], True
    loop = list(stmts[0][1][1])
    k, depth = 0, 1
    pad = lambda: "  " * depth
    for s in loop:
        if s[0] == "let" and s[1][0] == "pid":
            name, e = s[1][1], s[2]
            if e == ("mcall", ("id", "rand"), "next_u64", []):
                if not first:
                    raise TranslateError("ziggurat.rs: a second next_u64")
                first = False
                z.env[name] = ("bits", "u64")
                if name != "bits":
                    lines.append(pad() + "let %s := bits" % name)
                continue
            if "rand" in repr(e):
                raise TranslateError("ziggurat.rs: a draw inside `let %s`" % name)
            t, ty = z.ex(e)
            z.env[name] = (name, ty)
            lines.append(pad() + "let %s := %s" % (name, t))
        elif s[0] == "if" and s[3] is None and len(s[2][1]) == 1 and s[2][1][0][0] == "return" and s[2][2] is None:
            r = s[2][1][0][1]
            cond = s[1]
            f01 = ("mcall", ("id", "rand"), "float01", [])
            if "rand" in repr(cond):
                # the wedge test: the draw is part of the condition
                def sub(e):
                    if e == f01:
                        return ("id", "__f01")
                    return tuple(sub(x) if isinstance(x, tuple) else [sub(y) if isinstance(y, tuple) else y for y in x] if isinstance(x, list) else x for x in e)
                c2 = sub(cond)
                if "rand" in repr(c2) or repr(cond).count("float01") != 1:
                    raise TranslateError("ziggurat.rs: the wedge condition draws something else than one float01()")
                z.env["__f01"] = ("f01", "f64")
                c, cty = z.ex(c2)
                rv, rty = z.ex(r)
                if cty != "bool" or rty != "f64" or s is not loop[-1]:
                    raise TranslateError("ziggurat.rs: the wedge test is not the last statement of the loop")
                lines.append(pad() + ".wedge %s (fun f01 => %s)" % (rv, c))
                break
            c, cty = z.ex(cond)
            if cty != "bool":
                raise TranslateError("ziggurat.rs: condition")
            if r[0] == "call" and r[1] == "zero_case" and len(r[2]) == 2 and r[2][0] == ("id", "rand"):
                a, aty = z.ex(r[2][1])
                lines.append(pad() + "if %s then .tail %s else" % (c, a))
            else:
                rv, rty = z.ex(r)
                if rty != "f64":
                    raise TranslateError("ziggurat.rs: return value")
                lines.append(pad() + "if %s then .ret %s else" % (c, rv))
        else:
            raise TranslateError("ziggurat.rs: statement %r in the loop" % (s[0],))
    else:
        raise TranslateError("ziggurat.rs: the loop does not end with the wedge test")
    if first:
        raise TranslateError("ziggurat.rs: no next_u64")
    out.append("inductive ZigDec where\n  | ret (x : Nat)\n  | tail (u : Nat)\n  | wedge (x : Nat) (accept : Nat → Bool)\n")
    out.append("def zig_iter (symmetric : Bool) (xTab fTab : Array Nat) (pdf : Nat → Nat) (bits : BitVec 64) : ZigDec :=\n%s\n" % "\n".join(lines))
    return "\n".join(out)


def strip_nested(toks):
    """(tokens without nested `fn` items, {name: (params, body)} of the nested items)"""
    out, i, nested = [], 0, {}
    while i < len(toks):
        if toks[i] == ("id", "fn"):
            k = i
            while toks[k] != ("op", "{") or False:
                if toks[k] == ("op", "("):
                    k = matching(toks, k)
                k += 1
            be = matching(toks, k)
            nested.update(functions(toks[i:be + 1]))
            i = be + 1
        else:
            out.append(toks[i])
            i += 1
    return out, nested


def samplers(repo):
    """`impl Distribution<f64> for StandardNormal` / `for Exp1` (src/distr/normal.rs, exp.rs): the nested `pdf` and `zero_case` and the call of
    `ziggurat::ziggurat` (symmetric flag, tables); `impl Distribution<f32>`: must be `let x: f64 = self.sample(rand); x as f32`."""
    out = []
    for fname, struct, pre, R, X, F in (("normal.rs", "StandardNormal", "std_normal", "ZIG_NORM_R", "ZIG_NORM_X", "ZIG_NORM_F"),
                                        ("exp.rs", "Exp1", "exp1", "ZIG_EXP_R", "ZIG_EXP_X", "ZIG_EXP_F")):
        text = re.sub(r"//[^\n]*", "", open(os.path.join(repo, "src/distr", fname)).read())
        b32 = functions(debug_only(ftok(retok(tokenize(impl_block(text, r"impl\s+Distribution<f32>\s+for\s+%s\s*\{" % struct, "Distribution<f32> for " + struct))))))
        stmts, tail = FP(b32["sample"][1]).body() if sorted(b32) == ["sample"] else ([], None)
        if not (len(stmts) == 1 and stmts[0][0] == "let" and stmts[0][2] == ("mcall", ("id", "self"), "sample", [("id", "rand")]) and tail == ("cast", ("id", stmts[0][1][1]), ["f32"])):
            raise TranslateError("%s: the f32 sampler is not `let x: f64 = self.sample(rand); x as f32`" % fname)
        b64 = functions(debug_only(ftok(retok(tokenize(impl_block(text, r"impl\s+Distribution<f64>\s+for\s+%s\s*\{" % struct, "Distribution<f64> for " + struct))))))
        if sorted(b64) != ["sample"]:
            raise TranslateError("%s: functions %r" % (fname, sorted(b64)))
        rest, nested = strip_nested(b64["sample"][1])
        if sorted(nested) != ["pdf", "zero_case"]:
            raise TranslateError("%s: nested functions %r" % (fname, sorted(nested)))
        stmts, tail = FP(rest).body()
        want = ("call", "ziggurat::ziggurat", None)
        if stmts or not (tail and tail[0] == "call" and tail[1] == "ziggurat::ziggurat" and len(tail[2]) == 6):
            raise TranslateError("%s: the sampler does not end in ziggurat::ziggurat(..)" % fname)
        a = tail[2]
        flag = {("id", "true"): "true", ("id", "false"): "false"}.get(a[1])
        tabs = [x[2][1] if x[0] == "ref" and x[2][0] == "id" else None for x in (a[2], a[3])]
        if a[0] != ("id", "rand") or flag is None or None in tabs or a[4] != ("id", "pdf") or a[5] != ("id", "zero_case"):
            raise TranslateError("%s: arguments of ziggurat::ziggurat" % fname)
        out.append('def %s_call : Bool × String × String := (%s, "%s", "%s")\n' % (pre, flag, tabs[0].split("::")[-1], tabs[1].split("::")[-1]))
        # pdf
        ps, body = nested["pdf"]
        st, tl = FP(body).body()
        if ps != ["x"] or st or tl is None:
            raise TranslateError("%s: pdf" % fname)
        out.append("def %s_pdf (m : Libm) (x : Nat) : Nat :=\n  %s\n" % (pre, T(pre + "_pdf", {"x": "x"}, {}, STRUCTS).val(tl).replace(" f ", " b64 ")))
        # zero_case
        ps, body = nested["zero_case"]
        st, tl = FP(body).body()
        if ps[0] != "rand" or len(ps) != 2:
            raise TranslateError("%s: zero_case parameters" % fname)
        uname = ps[1]
        Rid = "ziggurat::" + R
        if not st:
            d = []
            v = T(pre + "_tail", {Rid: "R", uname: "u", "\0draws": d}, {}, STRUCTS).val(tl).replace(" f ", " b64 ")
            out.append("def %s_tail (m : Libm) (R u %s: Nat) : Nat :=\n  %s\n" % (pre, "".join(x + " " for x in d), v))
            out.append("def %s_tail_draws : Nat := %d\n" % (pre, len(d)))
            continue
        if tl is None and st and st[-1][0] == "if" and st[-1][3] is not None and not st[-1][2][1] and not st[-1][3][1] and st[-1][2][2] is not None and st[-1][3][2] is not None:
            tl = ("ifx", st[-1][1], st[-1][2][2], st[-1][3][2])          # an `if .. else ..` in value position
            st = st[:-1]
        # let mut x = ..; let mut y = ..; while COND { draws; x = ..; y = .. }  <value>
        if not (len(st) == 3 and st[0][0] == "let" and st[1][0] == "let" and st[2][0] == "while" and tl is not None):
            raise TranslateError("%s: zero_case is not `let x; let y; while .. { .. } <value>`" % fname)
        vx, vy = st[0][1][1], st[1][1][1]
        t0 = T(pre, {}, {}, STRUCTS)
        out.append("def %s_tail_init : Nat × Nat := (%s, %s)\n" % (pre, t0.val(st[0][2]).replace(" f ", " b64 "), t0.val(st[1][2]).replace(" f ", " b64 ")))
        tc = T(pre, {vx: "x", vy: "y"}, {}, STRUCTS)
        out.append("def %s_tail_cond (x y : Nat) : Bool :=\n  %s\n" % (pre, tc.cond_atom(st[2][1]).replace(" f ", " b64 ")))
        d = []
        ts = T(pre, {vx: "x", vy: "y", Rid: "R", "\0draws": d}, {}, STRUCTS)
        lines = []
        assigned = {}
        for b in st[2][2][1]:
            if b[0] == "let" and b[1][0] == "pid":
                v = ts.val(b[2]).replace(" f ", " b64 ")
                ts.env[b[1][1]] = v if v in d else b[1][1]
                if v not in d:
                    lines.append("  let %s := %s" % (b[1][1], v))
            elif b[0] == "assign" and b[1][0] == "id" and b[1][1] in (vx, vy):
                assigned[b[1][1]] = ts.val(b[2]).replace(" f ", " b64 ")
                # later statements see the new value
                lines.append("  let %s := %s" % ("x" if b[1][1] == vx else "y", assigned[b[1][1]]))
            else:
                raise TranslateError("%s: statement in the tail loop" % fname)
        if set(assigned) != {vx, vy} or st[2][2][2] is not None:
            raise TranslateError("%s: the tail loop does not assign both variables" % fname)
        out.append("def %s_tail_step (m : Libm) (R x y %s: Nat) : Nat × Nat :=\n%s\n  (x, y)\n" % (pre, "".join(v + " " for v in d), "\n".join(lines)))
        out.append("def %s_tail_draws : Nat := %d\n" % (pre, len(d)))
        tr = T(pre, {vx: "x", vy: "y", Rid: "R", uname: "u"}, {}, STRUCTS)
        out.append("def %s_tail_result (R u x y : Nat) : Nat :=\n  %s\n" % (pre, tr.val(tl).replace(" f ", " b64 ")))
    return "\n".join(out)


def random_single(repo):
    """`Random::single` (src/random.rs): the frame `let mut iter = collection.into_iter(); let (len, upper) = iter.size_hint(); if upper ==
    Some(len) { let index = usize::min(A, self.index(B)); return iter.nth(index); } let mut result = None; let mut denom = <d0>;
    iter.for_each(|item| { .. }); result` is checked; A, B and d0 are extracted and the closure - one item of the reservoir - is translated:
    `self.chance(p)` is a draw from an abstract generator, `result = Some(item)` / `drop(item)` the two outcomes, `denom += <c>` the counter."""
    from extract_scalar import parse_fns
    raw, _ = parse_fns(open(os.path.join(repo, "src/random.rs")).read())
    cands = [f for f in raw.get("single", []) if f[0] and f[0][0][0] == "self"]
    if len(cands) != 1:
        raise TranslateError("src/random.rs: single not found (or not unique)")
    toks = ftok(cands[0][2])
    Tk = lambda txt: ftok(retok(tokenize(txt)))
    pre = Tk("let mut iter = collection.into_iter(); let (len, upper) = iter.size_hint(); if upper == Some(len) { let index = usize::min(")
    if toks[:len(pre)] != pre:
        raise TranslateError("single: the exact-size shortcut has another shape")
    k = matching(toks, len(pre) - 1)                      # the `)` of usize::min(
    args = split_top(toks[len(pre):k], ",")
    mid = Tk("; return iter.nth(index); } let mut result = None; let mut denom =")
    if len(args) != 2 or toks[k + 1:k + 1 + len(mid)] != mid:
        raise TranslateError("single: the exact-size shortcut has another shape")
    a0 = args[0]
    idx = Tk("self.index(")
    if a0 != [("id", "len")] or args[1][:len(idx)] != idx or args[1][len(idx):] != [("id", "len"), ("op", ")")]:
        raise TranslateError("single: the shortcut is not usize::min(len, self.index(len))")
    j = k + 1 + len(mid)
    d0 = []
    while toks[j] != ("op", ";"):
        d0.append(toks[j])
        j += 1
    fe = Tk("; iter.for_each(|item| {")
    if toks[j:j + len(fe)] != fe:
        raise TranslateError("single: the reservoir loop has another shape")
    b0 = j + len(fe) - 1
    b1 = matching(toks, b0)
    if toks[b1 + 1:] != Tk("); result"):
        raise TranslateError("single: the end has another shape")
    t0 = T("single", {}, {}, STRUCTS)
    init = t0.val(FP(d0).expr()).replace(" f ", " b64 ")
    stmts, tail = FP(toks[b0 + 1:b1]).body()
    if not (tail is None and len(stmts) == 2 and stmts[0][0] == "if" and stmts[0][3] is not None and stmts[1][0] == "assign" and stmts[1][1] == ("id", "denom")):
        raise TranslateError("single: the closure is not `if self.chance(..) { .. } else { .. } denom += ..;`")
    c = stmts[0][1]
    if not (c[0] == "mcall" and c[1] == ("id", "self") and c[2] == "chance" and len(c[3]) == 1):
        raise TranslateError("single: the condition is not self.chance(..)")
    tt = T("single", {"denom": "denom"}, {}, STRUCTS)
    p = tt.val(c[3][0]).replace(" f ", " b64 ")
    yes, no = stmts[0][2], stmts[0][3]
    if not (yes[1] == [("assign", ("id", "result"), ("call", "Some", [("id", "item")]))] and yes[2] is None
            and (no[1] == [("expr", ("call", "drop", [("id", "item")]))] or not no[1]) and no[2] is None):
        raise TranslateError("single: the two outcomes are not `result = Some(item)` / `drop(item)`")
    d1 = tt.val(stmts[1][2]).replace(" f ", " b64 ")
    return ("def single_denom0 : Nat := %s\n\n"
            "def single_item {σ : Type} (chance : σ → Nat → Bool × σ) (st : Nat × Option Nat × σ) (item : Nat) : Nat × Option Nat × σ :=\n"
            "  let (denom, result, rng) := st\n  let (take, rng) := chance rng %s\n  let result := if take then some item else result\n"
            "  let denom := %s\n  (denom, result, rng)\n" % (init, p, d1))


def generate(repo, out_dir, write):
    """one generated file per group of sources, so that a source the translator cannot read breaks the obligations about that group only"""
    for fname, what, fn in (("FloatDistr", "src/distr/{exp,normal}.rs", lambda r: translate(r) + "\n" + samplers(r)), ("FloatUniform", "src/distr/uniform/float.rs", uniform_float),
                            ("FloatBernoulli", "src/distr/bernoulli.rs, Random::chance", bernoulli), ("FloatZiggurat", "src/distr/ziggurat.rs", ziggurat), ("FloatSingle", "src/random.rs (single)", random_single)):
        head = ("/- GENERATED by tools/extract_float.py from %s on every run - do not edit. -/\n"
                "import Urandom.Model.FloatDistr\nset_option linter.unusedVariables false\nnamespace Urandom.Generated.FloatD\nopen Urandom Urandom.IEEE Urandom.FD\n\n" % what)
        try:
            text = head + fn(repo) + "\nend Urandom.Generated.FloatD\n"
        except Exception as e:
            msg = ("%s: %s" % (type(e).__name__, e)).replace("-/", "- /")
            text = ("/- tools/extract_float.py could not translate the current source: %s -/\n"
                    "namespace Urandom.Generated.FloatD\ndef translation_failed_%s : Nat := translation_of_the_current_source_failed\nend Urandom.Generated.FloatD\n" % (msg, fname))
        write(os.path.join(out_dir, fname + ".lean"), text)


if __name__ == "__main__":
    print(translate(os.environ.get("VERIF_REPO", "/repo")))
    print(uniform_float(os.environ.get("VERIF_REPO", "/repo")))
    print(bernoulli(os.environ.get("VERIF_REPO", "/repo")))
    print(ziggurat(os.environ.get("VERIF_REPO", "/repo")))
    print(samplers(os.environ.get("VERIF_REPO", "/repo")))
    print(random_single(os.environ.get("VERIF_REPO", "/repo")))
