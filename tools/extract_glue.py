#!/usr/bin/env python3
"""Translator for the FORWARDING layer of the crate: the one- and two-line methods that hand a call on - `Random<R>`'s wrappers
(src/random.rs), the default methods of the `Rng` trait (src/rng.rs), the typed byte wrappers of src/rng/util.rs, `&D` / `Map` (src/distr.rs),
`Samples` (src/distr/samples.rs), `Uniform<T>` around its sampler (src/distr/uniform.rs), `NonZero*` / tuples / `Wrapping` of
src/distr/standard.rs and the `Rng` impls that forward to an inner object (ChaCha -> BlockRngImpl, the clone / fill / write-back
`fill_bytes` of the word generators, `BlockRngImpl::jump`, `System::fill_bytes` / `jump`).

Each body is parsed (a small Rust subset: `let`, `return`, expression statements, method / path calls, field access, `&` / `&mut` / `*`,
`unsafe` blocks, struct literals, closures `|x| e`, tuples, `for x in buf { *x = e; }`, `loop { if let Some(x) = f(e) { break x; } }`,
`panic!`) and emitted as a Lean `do` block over an arbitrary monad: every call that can have an effect is bound by `let v <- ..` in the
order Rust evaluates it (receiver, then arguments left to right, then the call), pure operations become terms.  What the names in a body
mean - which receiver is the generator, which calls are the crate's own functions - is fixed per function by the table `FUNCS` below
(the SIGNATURE is mine, the BODY is the source's): a name the table does not declare makes the generated file fail to build, which the
checks report as a proof obligation that no longer holds.

Vocabulary: Urandom/Model/Glue.lean.  Theorems: Props/C01R.lean, C04R.lean, C13R.lean."""
import os, re, sys
sys.path.insert(0, os.path.dirname(os.path.abspath(__file__)))


class TranslateError(Exception):
    pass


LEAN_KEYWORDS = {"end", "from", "at", "in", "do", "then", "else", "fun", "let", "have", "show", "open", "by", "if"}
TOKEN = re.compile(r"\s*(?:(\d[\d_]*(?:\.\d+)?(?:[iuf]\d+|usize|isize)?|0x[0-9a-fA-F_]+(?:[iu]\d+|usize)?)|('[a-z_]\w*)(?!')|([A-Za-z_]\w*!?)|(::|->|=>|==|!=|<=|>=|&&|\|\||\.\.=|\.\.|[-+*/%&|^!<>=.,;:(){}\[\]#?]))")


def strip_comments(src):
    src = re.sub(r"/\*.*?\*/", "", src, flags=re.S)
    return re.sub(r"//[^\n]*", "", src)


def tokenize(text):
    toks, i = [], 0
    text = text.rstrip()
    while i < len(text):
        if text[i] == '"':
            j = i + 1
            while text[j] != '"':
                j += 2 if text[j] == "\\" else 1
            toks.append(("str", text[i:j + 1]))
            i = j + 1
            continue
        m = TOKEN.match(text, i)
        if not m:
            if text[i:].strip() == "":
                break
            raise TranslateError("cannot tokenize at %r" % text[i:i + 30])
        if m.group(1):
            toks.append(("num", m.group(1)))
        elif m.group(2):
            toks.append(("life", m.group(2)))
        elif m.group(3):
            toks.append(("id", m.group(3)))
        else:
            toks.append(("op", m.group(4)))
        i = m.end()
    return toks


class Parser:
    def __init__(self, toks):
        self.t, self.i = toks, 0

    def peek(self, k=0):
        return self.t[self.i + k] if self.i + k < len(self.t) else ("eof", "")

    def at(self, v):
        return self.peek()[1] == v and self.peek()[0] in ("op", "id")

    def eat(self, v=None):
        t = self.peek()
        if v is not None and t[1] != v:
            raise TranslateError("expected %r, found %r" % (v, t[1]))
        self.i += 1
        return t

    # ---- types: skipped as token runs
    def skip_type(self):
        """returns the type as text; stops at `,` `)` `;` `=` `{` `>` (unbalanced)"""
        depth, out = 0, []
        while True:
            t = self.peek()
            if t[0] == "eof":
                break
            if t[1] in ("<", "(", "["):
                depth += 1
            elif t[1] in (">", ")", "]"):
                if depth == 0:
                    break
                depth -= 1
            elif t[1] == ">>":
                if depth < 2:
                    break
                depth -= 2
            elif depth == 0 and t[1] in (",", ";", "=", "{", "|"):
                break
            out.append(t[1])
            self.i += 1
        return " ".join(out)

    # ---- statements
    def body(self):
        """statements up to the closing brace / end; returns (stmts, tail expression or None)"""
        stmts, tail = [], None
        while self.peek()[0] != "eof" and not self.at("}"):
            if self.at("#"):                      # attribute on a statement: not translated
                raise TranslateError("attribute inside a body")
            if self.at("let"):
                self.eat()
                if self.at("mut"):
                    self.eat()
                if self.at("("):
                    self.eat()
                    names = []
                    while not self.at(")"):
                        names.append(self.eat()[1])
                        if self.at(","):
                            self.eat()
                    self.eat(")")
                    pat = ("ptup", names)
                else:
                    pat = ("pid", self.eat()[1])
                if self.at(":"):
                    self.eat()
                    self.skip_type()
                self.eat("=")
                e = self.expr()
                self.eat(";")
                stmts.append(("let", pat, e))
            elif self.at("return"):
                self.eat()
                e = self.expr()
                self.eat(";")
                stmts.append(("ret", e))
            elif self.at("for"):
                self.eat()
                var = self.eat()[1]
                self.eat("in")
                it = self.expr(nostruct=True)
                self.eat("{")
                inner = self.body()
                self.eat("}")
                stmts.append(("for", var, it, inner))
            elif self.at("loop"):
                self.eat()
                self.eat("{")
                inner = self.body()
                self.eat("}")
                node = ("loop", inner)
                if self.at("}") or self.peek()[0] == "eof":
                    tail = node
                else:
                    stmts.append(("expr", node))
            elif self.at("if"):
                self.eat()
                if self.at("let"):
                    self.eat()
                    ctor = self.eat()[1]
                    self.eat("(")
                    v = self.eat()[1]
                    self.eat(")")
                    self.eat("=")
                    e = self.expr(nostruct=True)
                    self.eat("{")
                    inner = self.body()
                    self.eat("}")
                    stmts.append(("iflet", ctor, v, e, inner))
                else:
                    c = self.cond()
                    self.eat("{")
                    inner = self.body()
                    self.eat("}")
                    if self.at("else"):
                        raise TranslateError("`if .. else` in a forwarding body")
                    stmts.append(("if", c, inner))
            elif self.at("break"):
                self.eat()
                e = self.expr()
                self.eat(";")
                stmts.append(("break", e))
            else:
                e = self.expr()
                if self.at("="):
                    self.eat()
                    rhs = self.expr()
                    self.eat(";")
                    stmts.append(("assign", e, rhs))
                elif self.at(";"):
                    self.eat()
                    stmts.append(("expr", e))
                else:
                    tail = e
                    break
        return stmts, tail

    def cond(self):
        """`!e` | `e` | `e <cmp> e` with numeric literals allowed"""
        a = self.unary(True)
        if self.peek()[0] == "op" and self.peek()[1] in (">", "<", ">=", "<=", "==", "!="):
            op = self.eat()[1]
            return ("cmp", op, a, self.unary(True))
        return a

    # ---- expressions (no binary operators except `as`; prefix `!` `-` `&` `*`)
    def expr(self, nostruct=False):
        e = self.unary(nostruct)
        while self.at("as"):
            self.eat()
            ty = self.skip_type()
            e = ("cast", e, ty)
        if self.peek()[0] == "op" and self.peek()[1] in ("+", "-", "*", "/", "%", "<<", ">>", "|", "^", "==", "!=", "<", ">", "<=", ">=", "&&", "||", "..", "..="):
            # `&` is not listed: it cannot follow a complete expression in these bodies except as an operator, which we reject too
            raise TranslateError("binary operator %r in a forwarding body" % self.peek()[1])
        return e

    def unary(self, nostruct):
        if self.at("&"):
            self.eat()
            if self.at("mut"):
                self.eat()
                return ("refmut", self.unary(nostruct))
            return ("ref", self.unary(nostruct))
        if self.at("*"):
            self.eat()
            return ("deref", self.unary(nostruct))
        if self.at("!"):
            self.eat()
            return ("not", self.unary(nostruct))
        return self.postfix(self.primary(nostruct), nostruct)

    def args(self, close=")"):
        out = []
        while not self.at(close):
            out.append(self.expr())
            if self.at(","):
                self.eat()
        self.eat(close)
        return out

    def primary(self, nostruct):
        t = self.peek()
        if t[0] == "num":
            self.eat()
            return ("num", t[1])
        if t[0] == "str":
            self.eat()
            return ("str", t[1])
        if self.at("unsafe"):
            self.eat()
            self.eat("{")
            stmts, tail = self.body()
            self.eat("}")
            if stmts or tail is None:
                raise TranslateError("unsafe block with statements")
            return tail
        if self.at("match"):
            self.eat()
            scrut = self.expr(nostruct=True)
            self.eat("{")
            arms = []
            while not self.at("}"):
                ctor = self.eat()[1]
                self.eat("(")
                v = self.eat()[1]
                self.eat(")")
                self.eat("=>")
                arms.append((ctor, v, self.expr()))
                if self.at(","):
                    self.eat()
            self.eat("}")
            return ("match", scrut, arms)
        if self.at("move") and self.peek(1)[1] == "|":
            self.eat()
        if self.at("|"):
            self.eat()
            params = []
            while not self.at("|"):
                params.append(self.eat()[1])
                if self.at(","):
                    self.eat()
            self.eat("|")
            return ("closure", params, self.expr())
        if self.at("("):
            self.eat()
            if self.at(")"):
                self.eat()
                return ("unit",)
            first = self.expr()
            if self.at(","):
                items = [first]
                while self.at(","):
                    self.eat()
                    if self.at(")"):
                        break
                    items.append(self.expr())
                self.eat(")")
                return ("tuple", items)
            self.eat(")")
            return ("paren", first)
        if self.at("<"):
            # `<StandardUniform as Distribution<T>>::sample(..)`
            self.eat()
            ty = self.skip_type()
            self.eat(">")
            segs = ["<" + ty + ">"]
            while self.at("::"):
                self.eat()
                segs.append(self.eat()[1])
            return ("path", segs)
        if t[0] == "id":
            if t[1].endswith("!"):
                self.eat()
                self.eat("(")
                depth = 1
                while depth:
                    x = self.eat()
                    depth += (x[1] == "(") - (x[1] == ")")
                return ("macro", t[1])
            segs = [self.eat()[1]]
            while self.at("::"):
                self.eat()
                if self.at("<"):
                    self.eat()
                    self.skip_type()
                    self.eat(">")
                    continue
                segs.append(self.eat()[1])
            e = ("path", segs)
            if self.at("{") and not nostruct and segs[-1][0].isupper():
                self.eat()
                fields = []
                while not self.at("}"):
                    name = self.eat()[1]
                    if self.at(":"):
                        self.eat()
                        fields.append((name, self.expr()))
                    else:
                        fields.append((name, ("path", [name])))
                    if self.at(","):
                        self.eat()
                self.eat("}")
                return ("struct", segs, fields)
            return e
        raise TranslateError("unexpected token %r" % (t[1],))

    def postfix(self, e, nostruct):
        while True:
            if self.at("("):
                self.eat()
                e = ("call", e, self.args())
            elif self.at("."):
                self.eat()
                name = self.eat()[1]
                if self.at("::"):
                    self.eat()
                    self.eat("<")
                    self.skip_type()
                    self.eat(">")
                if self.at("("):
                    self.eat()
                    e = ("mcall", e, name, self.args())
                else:
                    e = ("field", e, name)
            elif self.at("?"):
                raise TranslateError("`?` in a forwarding body")
            else:
                return e


def rust_text(e):
    """canonical text of an expression, for table lookups"""
    k = e[0]
    if k == "path":
        return "::".join(e[1])
    if k == "field":
        return rust_text(e[1]) + "." + e[2]
    if k in ("ref", "refmut", "deref", "paren"):
        return rust_text(e[1])
    if k == "cast":
        return rust_text(e[1]) + " as " + e[2]
    if k == "mcall":
        return "%s.%s(%s)" % (rust_text(e[1]), e[2], ", ".join(rust_text(a) for a in e[3]))
    if k == "call":
        return "%s(%s)" % (rust_text(e[1]), ", ".join(rust_text(a) for a in e[2]))
    return k


def lname(n):
    return n + "_" if n in LEAN_KEYWORDS else n


class Emit:
    """one function body -> Lean do-lines.  `names`: rust expression text -> (kind, lean) with kind in
    rng (a generator record: method calls are its fields), val (a pure value), fn (an effectful function parameter), pfn (a pure one)"""
    PURE_METHODS = {"len", "get", "get_mut", "into_inner", "assume_init"}

    def __init__(self, names, usize_fields=()):
        self.names = dict(names)
        self.lines, self.n, self.ind = [], 0, "  "
        self.locals = set()

    def fresh(self):
        self.n += 1
        return "v%d" % self.n

    def out(self, s):
        self.lines.append(self.ind + s)

    def bind(self, action):
        v = self.fresh()
        self.out("let %s ← %s" % (v, action))
        return v

    def lookup(self, e):
        return self.names.get(rust_text(e)) if e[0] in ("path", "field", "ref", "refmut", "deref", "paren") else None

    def term(self, e):
        """pure Lean term for `e`; effects are hoisted into self.lines"""
        k = e[0]
        hit = self.lookup(e)
        if hit:
            return hit[1]
        if k in ("ref", "refmut", "deref", "paren"):
            return self.term(e[1])
        if k == "path":
            if len(e[1]) == 1 and e[1][0] in self.locals:
                return lname(e[1][0])
            if e[1] == ["None"]:
                return "none"
            raise TranslateError("name %s is not declared for this function" % rust_text(e))
        if k == "num":
            if getattr(self, "in_cond", False) and re.fullmatch(r"\d+", e[1]):
                return e[1]
            raise TranslateError("numeric literal %s in a forwarding body" % e[1])
        if k == "cmp":
            self.in_cond = True
            a, b = self.atom(e[2]), self.atom(e[3])
            self.in_cond = False
            return "(%s %s %s)" % (a, {"==": "=", "!=": "≠"}.get(e[1], e[1]), b)
        if k == "unit":
            return "()"
        if k == "tuple":
            return "(" + ", ".join(self.term(x) for x in e[1]) + ")"
        if k == "field":
            return "%s.%s" % (self.term(e[1]), lname(e[2]))
        if k == "struct":
            h = self.names.get("struct:" + e[1][-1])
            return "(%s %s)" % (h[1] if h else e[1][-1] + ".mk", " ".join(self.atom(x) for _, x in e[2]))
        if k == "cast":
            mm = re.fullmatch(r"(\w+)\.as_mut_ptr\(\) as \* mut (?:u8|MaybeUninit < u8 >)", rust_text(e))
            if mm:                                # the address of the buffer as a byte pointer: the buffer itself
                return self.term(("path", [mm.group(1)]))
            raise TranslateError("cast `%s`" % rust_text(e))
        if k == "not":
            h = self.names.get("!" + rust_text(e[1]))
            if h:
                return h[1]
            if getattr(self, "allow_not", False):
                return "(!%s)" % self.atom(e[1])
            raise TranslateError("operator `!`")
        if k == "closure":
            sub = Emit(self.names)
            sub.locals = self.locals | set(e[1])
            t = sub.term(e[2])
            if sub.lines:
                raise TranslateError("closure with effects")
            return "(fun %s => %s)" % (" ".join(lname(p) for p in e[1]), t)
        if k == "macro":
            if e[1] == "panic!":
                return self.bind("Panics.panic")
            raise TranslateError("macro %s" % e[1])
        if k == "mcall":
            recv, name, args = e[1], e[2], e[3]
            rh = self.lookup(recv)
            if rh and rh[0] == "rng":
                a = [self.atom(x) for x in args]
                return self.bind(" ".join(["%s.%s" % (rh[1], name)] + a))
            if rh and rh[0] == "self":            # a sibling method of the same object: a declared function parameter
                sh = self.names.get("self." + name)
                if not sh:
                    raise TranslateError("method self.%s is not declared for this function" % name)
                a = [self.atom(x) for x in args]
                return self.bind(" ".join([sh[1]] + a)) if sh[0] == "fn" else "(%s)" % " ".join([sh[1]] + a)
            r = self.atom(recv)
            if name == "unwrap" and not args:
                return self.bind("unwrap %s" % r)
            if name == "map" and len(args) == 1:
                return "(mapOk %s %s)" % (self.atom(args[0]), r)
            a = [self.atom(x) for x in args]
            if name in self.PURE_METHODS:
                return "(%s)" % " ".join(["%s.%s" % (r, name)] + a)
            return self.bind(" ".join(["%s.%s" % (r, name)] + a))
        if k == "call":
            f, args = e[1], e[2]
            ft = rust_text(f)
            if ft in ("Some", "Ok") and len(args) == 1:
                return "(%s %s)" % ("some" if ft == "Some" else "Except.ok", self.atom(args[0]))
            if ft == "slice::from_raw_parts_mut" and len(args) == 2:
                m = re.fullmatch(r"(\w+)\.as_mut_ptr\(\) as \* mut MaybeUninit < u8 >", rust_text(args[0]))
                if not m:
                    raise TranslateError("from_raw_parts_mut over %s" % rust_text(args[0]))
                return "(from_raw_parts_mut %s %s)" % (self.term(("path", [m.group(1)])), self.atom(args[1]))
            if ft == "array::from_fn" and len(args) == 1 and args[0][0] == "closure" and args[0][1] == ["_"]:
                # `array::from_fn(move |_| e)`: N calls of the closure in index order (std's documented order)
                sub = Emit(self.names)
                sub.locals, sub.ind, sub.n = set(self.locals), self.ind + "  ", self.n
                t = sub.term(args[0][2])
                self.n = sub.n
                v = self.fresh()
                self.out("let %s ← forEachSlot N (do" % v)
                self.lines += sub.lines
                self.out("  pure %s)" % sub.atom_t(t))
                return v
            if ft == "mem::size_of_val" and len(args) == 1:
                return "%s.size_of_val" % self.atom(args[0])
            if ft == "mem::transmute" and len(args) == 1:
                return self.term(args[0])
            if ft == "slice::from_mut" and len(args) == 1:
                return "(from_mut %s)" % self.atom(args[0])
            if f[0] == "paren":                    # `(self.f)(x)`: a stored pure function
                return "(%s %s)" % (self.term(f[1]), " ".join(self.atom(x) for x in args))
            h = self.names.get(ft)
            if not h:
                raise TranslateError("function %s is not declared for this function" % ft)
            if h[0] == "div":
                return self.bind("(Panics.panic : m Unit)")
            # `f(&mut local, ..)` on a local snapshot of a generator: state passing - the call returns the new snapshot
            rebind = [rust_text(x) for x in args if x[0] == "refmut" and x[1][0] == "path" and x[1][1][0] in self.locals and self.names.get("snapshot:" + x[1][1][0])]
            a = [self.atom(x) for x in args]
            if h[0] == "pfn":
                return "(%s)" % " ".join([h[1]] + a)
            if rebind:
                self.out("let %s ← %s" % (lname(rebind[0]), " ".join([h[1]] + a)))
                return "()"
            return self.bind(" ".join([h[1]] + a))
        raise TranslateError("expression %s" % k)

    def atom(self, e):
        t = self.term(e)
        return t if re.fullmatch(r"[\w.']+|\(.*\)", t) and (t[0] != "(" or self.balanced(t)) else "(%s)" % t

    @staticmethod
    def balanced(t):
        d = 0
        for i, c in enumerate(t):
            d += (c == "(") - (c == ")")
            if d == 0 and i < len(t) - 1:
                return False
        return True

    def stmts(self, body, monadic=True):
        stmts, tail = body
        for s in stmts:
            k = s[0]
            if k == "let":
                t = self.term(s[2])
                if s[1][0] == "pid":
                    name = s[1][1]
                    self.locals.add(name)
                    if s[2][0] == "mcall" and s[2][2] == "clone" and self.lookup(s[2][1]) and self.lookup(s[2][1])[0] == "rng":
                        self.names["snapshot:" + name] = True
                    self.out("let %s := %s" % (lname(name), t))
                else:
                    for n in s[1][1]:
                        self.locals.add(n)
                    self.out("let (%s) := %s" % (", ".join(lname(n) for n in s[1][1]), t))
            elif k == "expr":
                if s[1][0] == "loop":
                    raise TranslateError("loop as a statement")
                t = self.term(s[1])
                # the value is dropped; its effects are already in the lines
            elif k == "ret":
                t = self.term(s[1])
                self.out("pure %s" % self.atom_t(t))
                return
            elif k == "assign":
                lhs = rust_text(s[1])
                h = self.names.get("set:" + lhs)
                if not h:
                    raise TranslateError("assignment to %s is not declared for this function" % lhs)
                t = self.term(s[2])
                self.out("%s %s" % (h[1], self.atom_t(t)))
            elif k == "if":
                self.allow_not = True
                c = self.term(s[1])
                self.allow_not = False
                self.out("if %s then" % c)
                sub = Emit(self.names)
                sub.locals, sub.ind, sub.n = set(self.locals), self.ind + "  ", self.n
                inner = s[2]
                if inner[1] is not None:
                    tl = inner[1]
                    if tl[0] == "call" and (self.names.get(rust_text(tl[1])) or ("", ""))[0] == "div":
                        inner = (inner[0] + [("expr", tl)], None)       # a diverging call in tail position
                    else:
                        raise TranslateError("`if` with a value")
                sub.stmts(inner)
                self.n = sub.n
                self.lines += sub.lines
            elif k == "for":
                var, it, inner = s[1], s[2], s[3]
                # only `for elem in buf { *elem = <expr>; }`
                ist, itail = inner
                if not (len(ist) == 1 and itail is None and ist[0][0] == "assign" and rust_text(ist[0][1]) == var and ist[0][1][0] == "deref"):
                    raise TranslateError("`for` of another shape than `for x in buf { *x = e; }`")
                buf = self.atom(it)
                sub = Emit(self.names)
                sub.locals, sub.ind, sub.n = set(self.locals), self.ind + "  ", self.n
                t = sub.term(ist[0][2])
                self.n = sub.n
                v = self.fresh()
                self.out("let %s ← forEachSlot %s.len.toNat (do" % (v, buf))
                self.lines += sub.lines
                self.out("  pure %s)" % sub.atom_t(t))
                self.names["stored:" + rust_text(it)] = ("val", v)
            else:
                raise TranslateError("statement %s" % k)
        if tail is None:
            st = [v for k, v in self.names.items() if k.startswith("stored:")]
            self.out("pure %s" % (st[0][1] if st else "()"))
        elif tail[0] == "loop":
            # loop { if let Some(x) = <f>(<body>) { break x; } }
            ist, itail = tail[1]
            ok = (len(ist) == 1 and itail is None and ist[0][0] == "iflet" and ist[0][1] == "Some" and ist[0][3][0] == "call" and len(ist[0][3][2]) == 1
                  and len(ist[0][4][0]) == 1 and ist[0][4][0][0][0] == "break" and rust_text(ist[0][4][0][0][1]) == ist[0][2])
            if not ok:
                raise TranslateError("`loop` of another shape than `loop { if let Some(x) = f(e) { break x; } }`")
            f = self.names.get(rust_text(ist[0][3][1]))
            if not f or f[0] != "pfn":
                raise TranslateError("function %s is not declared for this function" % rust_text(ist[0][3][1]))
            sub = Emit(self.names)
            sub.locals, sub.ind, sub.n = set(self.locals), self.ind + "  ", self.n
            t = sub.term(ist[0][3][2][0])
            self.n = sub.n
            self.out("loopUntilSome %s (do" % f[1])
            self.lines += sub.lines
            self.out("  pure %s) fuel" % sub.atom_t(t))
        elif tail[0] == "match":
            sc = self.atom(tail[1])
            self.out("match %s with" % sc)
            for ctor, v, arm in tail[2]:
                pat = {"Ok": ".ok", "Err": ".error", "Some": "some"}.get(ctor)
                if not pat or v != "_":
                    raise TranslateError("match arm %s(%s)" % (ctor, v))
                sub = Emit(self.names)
                sub.locals, sub.ind, sub.n = set(self.locals), self.ind + "  ", self.n
                if arm[0] == "call" and (self.names.get(rust_text(arm[1])) or ("", ""))[0] == "div":
                    sub.out("Panics.panic")
                else:
                    t = sub.term(arm)
                    sub.out("pure %s" % sub.atom_t(t))
                self.n = sub.n
                self.out("| %s _ =>" % pat)
                self.lines += sub.lines
        else:
            t = self.term(tail)
            self.out("pure %s" % self.atom_t(t))

    def atom_t(self, t):
        return t if re.fullmatch(r"[\w.']+|\(\)", t) or (t[0] == "(" and self.balanced(t)) else "(%s)" % t


# ---------------------------------------------------------------------------------------------------------------------------------------------

def fn_bodies(text):
    """[(start offset, name, body text)] of every fn with a body in a comment-stripped source text"""
    out = []
    for m in re.finditer(r"\bfn\s+(\w+)", text):
        i = m.end()
        depth = 0
        while i < len(text):               # to the `{` of the body or the `;` of a declaration, outside brackets
            c = text[i]
            if c in "(<[":
                depth += 1
            elif c in ")>]":
                if c == ">" and text[i - 1] == "-":
                    pass
                else:
                    depth -= 1
            elif depth <= 0 and c in "{;":
                break
            i += 1
        if i >= len(text) or text[i] == ";":
            continue
        d, j = 0, i
        while True:
            d += (text[j] == "{") - (text[j] == "}")
            if d == 0:
                break
            j += 1
        out.append((m.start(), m.group(1), text[i + 1:j]))
    return out


def impl_spans(text):
    """[(header, start, end)] of the `impl` / `trait` items of a comment-stripped text"""
    out = []
    for m in re.finditer(r"\b(impl|pub\s+trait|trait)\b", text):
        i, depth = m.end(), 0
        while i < len(text) and not (depth == 0 and text[i] in "{;"):        # a `;` inside `[T; N]` is not the end of an item
            depth += (text[i] in "[(") - (text[i] in "])")
            i += 1
        if i >= len(text) or text[i] == ";" or "}" in text[m.start():i] or '"' in text[m.start():i]:
            continue
        d, j = 0, i
        while j < len(text):
            d += (text[j] == "{") - (text[j] == "}")
            if d == 0:
                break
            j += 1
        out.append((" ".join(text[m.start():i].split()), i, j))
    return out


def locate(repo, rel, name, header=None, nth=0, macro=None, pick=None):
    """body text of fn `name` (inside the impl whose header contains `header`; inside `macro_rules! macro`)"""
    text = strip_comments(open(os.path.join(repo, rel)).read())
    text = re.sub(r"#\[test\]\s*fn\s+\w+\s*\(\)\s*\{", "fn_test {", text)
    lo, hi = 0, len(text)
    if macro:
        m = re.search(r"macro_rules!\s*%s\s*\{" % macro, text)
        if not m:
            raise TranslateError("%s: macro %s not found" % (rel, macro))
        d, j = 0, m.end() - 1
        while True:
            d += (text[j] == "{") - (text[j] == "}")
            if d == 0:
                break
            j += 1
        lo, hi = m.end(), j
    if header:
        spans = [(h, a, b) for h, a, b in impl_spans(text) if header in h and lo <= a < hi]
        if len(spans) <= nth:
            raise TranslateError("%s: no item `%s`" % (rel, header))
        if nth == 0 and len(spans) != 1 and not macro:
            raise TranslateError("%s: %d items `%s`" % (rel, len(spans), header))
        lo, hi = spans[nth][1], spans[nth][2]
    hits = [b for s, n, b in fn_bodies(text) if n == name and lo <= s < hi]
    if pick is not None:
        if len(hits) != pick[1]:
            raise TranslateError("%s: %d functions `%s`, expected %d" % (rel, len(hits), name, pick[1]))
        return hits[pick[0]]
    if len(hits) != 1:
        raise TranslateError("%s: %d functions `%s`%s" % (rel, len(hits), name, " in `%s`" % header if header else ""))
    return hits[0]


def translate(repo, spec):
    rel, name = spec["file"], spec["fn"]
    body = locate(repo, rel, name, spec.get("header"), spec.get("nth", 0), spec.get("macro"), spec.get("pick"))
    for a, b in spec.get("subst", []):       # macro parameters
        body = body.replace(a, b)
    p = Parser(tokenize(body))
    parsed = p.body()
    if p.peek()[0] != "eof":
        raise TranslateError("%s::%s: trailing tokens" % (rel, name))
    em = Emit(spec["names"])
    em.locals = set(spec.get("params", []))
    if spec.get("pure"):
        stmts, tail = parsed
        if stmts or tail is None:
            raise TranslateError("%s::%s is not a single expression" % (rel, name))
        t = em.term(tail)
        if em.lines:
            raise TranslateError("%s::%s has effects" % (rel, name))
        return "def %s %s : %s := %s\n" % (spec["lean"], spec["binders"], spec["ret"], t)
    em.stmts(parsed)
    body = "\n".join(em.lines)
    binders = spec["binders"]
    if "unwrap " in body or "Panics.panic" in body or spec.get("panics"):
        binders = "[Panics m] " + binders
    return "def %s %s : %s := do\n%s\n" % (spec["lean"], binders, spec["ret"], body)


R = ("rng", "R")
RB = "(R : Rng m σ)"
RANDOM = {"self": ("self", "R"), "self.rng": R}


def rnd(fn, binders, ret, extra=None, params=(), **kw):
    names = dict(RANDOM)
    names.update(extra or {})
    d = {"file": "src/random.rs", "fn": fn, "header": ("std::io::Read for Random<R>" if fn.startswith("read") else "?Sized> Random<R>"), "lean": "Random." + fn, "binders": (RB + " " + binders).strip(), "ret": ret, "names": names, "params": list(params)}
    d.update(kw)
    return d


FUNCS_RANDOM = [
    rnd("next_u32", "", "m (BitVec 32)"), rnd("next_u64", "", "m (BitVec 64)"), rnd("next_f32", "", "m (BitVec 32)"), rnd("next_f64", "", "m (BitVec 64)"),
    rnd("fill_bytes", "(util_fill_bytes : Rng m σ → Pod → m Pod) (buf : Pod)", "m Pod", {"rng::util::fill_bytes": ("fn", "util_fill_bytes")}, ["buf"]),
    rnd("fill_bytes_uninit", "(util_fill_bytes_uninit : Rng m σ → Pod → m Pod) (buf : Pod)", "m Pod", {"rng::util::fill_bytes_uninit": ("fn", "util_fill_bytes_uninit")}, ["buf"]),
    rnd("random_bytes", "(util_random_bytes : Rng m σ → m Pod)", "m Pod", {"rng::util::random_bytes": ("fn", "util_random_bytes")}),
    rnd("jump", "", "m Unit"),
    rnd("split", "", "m σ", {"self.clone": ("fn", "R.clone")}),
    rnd("next", "{T : Type} (StandardUniform : Dist m σ T)", "m T", {"distr::StandardUniform": ("val", "StandardUniform")}),
    rnd("fill", "{T : Type} (StandardUniform : Dist m σ T) (buf : Slice T)", "m (List T)", {"distr::StandardUniform": ("val", "StandardUniform")}, ["buf"]),
    rnd("range", "{T I : Type} (Uniform_from : I → m (Dist m σ T)) (interval : I)", "m T", {"distr::Uniform::from": ("fn", "Uniform_from")}, ["interval"]),
    rnd("float01", "(Float01 : Dist m σ (BitVec 64))", "m (BitVec 64)", {"distr::Float01": ("val", "Float01")}),
    rnd("sample", "{T : Type} (distr : Dist m σ T)", "m T", {}, ["distr"]),
    rnd("coin_flip", "(next : m Bool)", "m Bool", {"self.next": ("fn", "next")}),
    rnd("choose", "{T : Type} (index : BitVec 64 → m (BitVec 64)) (slice : Slice T)", "m (Option T)", {"self.index": ("fn", "index")}, ["slice"]),
    rnd("choose_mut", "{T : Type} (index : BitVec 64 → m (BitVec 64)) (slice : Slice T)", "m (Option T)", {"self.index": ("fn", "index")}, ["slice"]),
    rnd("read", "(fill_bytes : Slice (BitVec 8) → m (Slice (BitVec 8))) (buf : Slice (BitVec 8))", "m (Except Unit (BitVec 64))", {"self.fill_bytes": ("fn", "fill_bytes")}, ["buf"], lean="Random.io_read"),
    rnd("read_exact", "(fill_bytes : Slice (BitVec 8) → m (Slice (BitVec 8))) (buf : Slice (BitVec 8))", "m (Except Unit Unit)", {"self.fill_bytes": ("fn", "fill_bytes")}, ["buf"], lean="Random.io_read_exact"),
    rnd("read_to_end", "", "m (Except Unit (BitVec 64))", {}, lean="Random.io_read_to_end"),
    rnd("read_to_string", "", "m (Except Unit (BitVec 64))", {}, lean="Random.io_read_to_string"),
    # the default methods of the `Rng` trait
    {"file": "src/rng.rs", "fn": "next_f32", "header": "trait Rng", "lean": "RngDefault.next_f32", "binders": RB + " (rng_f32 : BitVec 32 → BitVec 32)", "ret": "m (BitVec 32)",
     "names": {"self": R, "util::rng_f32": ("pfn", "rng_f32")}},
    {"file": "src/rng.rs", "fn": "next_f64", "header": "trait Rng", "lean": "RngDefault.next_f64", "binders": RB + " (rng_f64 : BitVec 64 → BitVec 64)", "ret": "m (BitVec 64)",
     "names": {"self": R, "util::rng_f64": ("pfn", "rng_f64")}},
    # the typed byte wrappers of rng/util.rs
    {"file": "src/rng/util.rs", "fn": "fill_bytes", "lean": "util.fill_bytes", "binders": RB + " (buf : Pod)", "ret": "m Pod", "names": {"rng": R}, "params": ["buf"]},
    {"file": "src/rng/util.rs", "fn": "fill_bytes_uninit", "lean": "util.fill_bytes_uninit", "binders": RB + " (buf : Pod)", "ret": "m Pod", "names": {"rng": R}, "params": ["buf"]},
    {"file": "src/rng/util.rs", "fn": "random_bytes", "lean": "util.random_bytes", "binders": RB + " (sizeT : BitVec 64) (fill_bytes_uninit : Rng m σ → Pod → m Pod)", "ret": "m Pod",
     "names": {"rng": ("val", "R"), "fill_bytes_uninit": ("fn", "fill_bytes_uninit"), "MaybeUninit::uninit": ("pfn", "uninit sizeT")}},
    {"file": "src/rng/util.rs", "fn": "getrandom", "lean": "util.getrandom", "binders": "(sizeT : BitVec 64) (getentropy_uninit : Pod → m Unit)", "ret": "m Pod",
     "names": {"getentropy_uninit": ("fn", "getentropy_uninit"), "MaybeUninit::uninit": ("pfn", "uninit sizeT")}},
]

FUNCS_DISTR = [
    {"file": "src/distr.rs", "fn": "sample", "header": "for &'a D", "lean": "RefDist.sample", "binders": RB + " {T : Type} (self : Dist m σ T)", "ret": "m T",
     "names": {"self": ("val", "self"), "rand": ("val", "R")}},
    {"file": "src/distr.rs", "fn": "sample", "header": "for Map<", "lean": "Map.sample", "binders": RB + " {T U : Type} (self : Map m σ T U)", "ret": "m U",
     "names": {"self": ("val", "self"), "self.f": ("val", "self.f"), "self.distr": ("val", "self.distr"), "rand": ("val", "R")}},
    {"file": "src/distr/samples.rs", "fn": "next", "lean": "Samples.next", "binders": RB + " {T : Type} (distr : Dist m σ T)", "ret": "m (Option T)",
     "names": {"self.distr": ("val", "distr"), "self.rand": ("val", "R")}},
    {"file": "src/distr/samples.rs", "fn": "size_hint", "lean": "Samples.size_hint", "binders": "(usize_MAX : BitVec 64)", "ret": "BitVec 64 × Option (BitVec 64)", "pure": True,
     "names": {"usize::MAX": ("val", "usize_MAX")}},
]
SB = RB + " {T S ε : Type} (Sm : Sampler m σ T S ε)"
SN = {"T::Sampler::try_new": ("pfn", "Sm.try_new"), "T::Sampler::try_new_inclusive": ("pfn", "Sm.try_new_inclusive")}
for fn, header, nth, lean, binders, ret, params in [
        ("from", "From<ops::Range<T>> for Uniform<T>", 0, "Uniform.from_range", "(range : Range T)", "m (Uniform S)", ["range"]),
        ("from", "From<ops::RangeInclusive<T>> for Uniform<T>", 0, "Uniform.from_range_inclusive", "(range : RangeInclusive T)", "m (Uniform S)", ["range"]),
        ("try_new", "UniformSampler<T> for Uniform<T>", 0, "Uniform.sampler_try_new", "(low high : T)", "m (Except ε (Uniform S))", ["low", "high"]),
        ("try_new_inclusive", "UniformSampler<T> for Uniform<T>", 0, "Uniform.sampler_try_new_inclusive", "(low high : T)", "m (Except ε (Uniform S))", ["low", "high"]),
        ("try_new", "impl<T: SampleUniform> Uniform<T>", 0, "Uniform.try_new", "(low high : T)", "m (Except ε (Uniform S))", ["low", "high"]),
        ("new", "impl<T: SampleUniform> Uniform<T>", 0, "Uniform.new", "(low high : T)", "m (Uniform S)", ["low", "high"]),
        ("try_new_inclusive", "impl<T: SampleUniform> Uniform<T>", 0, "Uniform.try_new_inclusive", "(low high : T)", "m (Except ε (Uniform S))", ["low", "high"]),
        ("new_inclusive", "impl<T: SampleUniform> Uniform<T>", 0, "Uniform.new_inclusive", "(low high : T)", "m (Uniform S)", ["low", "high"]),
        ("sample", "Distribution<T> for Uniform<T>", 0, "Uniform.sample", "(self : Uniform S)", "m T", [])]:
    names = dict(SN)
    names.update({"self.sampler": ("val", "(Sm.dist self.sampler)"), "rand": ("val", "R"), "self": ("val", "self")})
    FUNCS_DISTR.append({"file": "src/distr/uniform.rs", "fn": fn, "header": header, "nth": nth, "lean": lean, "binders": SB + " " + binders, "ret": ret, "names": names, "params": params})

# src/distr/standard.rs: NonZero*, Wrapping, tuples
FUNCS_STANDARD = [
    {"file": "src/distr/standard.rs", "fn": "sample", "macro": "impl_nzint", "lean": "Standard.nonzero_sample", "binders": RB + " {T NZ : Type} (next : m T) (NZ_new : T → Option NZ) (fuel : Nat)",
     "ret": "m (Option NZ)", "names": {"rand": ("self", "R"), "self.next": ("fn", "next"), "num::NZ::new": ("pfn", "NZ_new")}, "subst": [("$name", "NZ")]},
    {"file": "src/distr/standard.rs", "fn": "sample", "header": "Distribution<[T; N]> for StandardUniform", "lean": "Standard.array_sample", "binders": RB + " {T : Type} (StandardUniform : Dist m σ T) (N : Nat)", "ret": "m (List T)",
     "names": {"StandardUniform": ("val", "StandardUniform"), "rand": ("val", "R"), "<StandardUniform as Distribution < T >>::sample": ("fn", "Dist.sample")}},
    {"file": "src/distr/standard.rs", "fn": "sample", "header": "for num::Wrapping<T>", "lean": "Standard.wrapping_sample", "binders": RB + " {T : Type} (StandardUniform : Dist m σ T)", "ret": "m (Wrapping T)",
     "names": {"StandardUniform": ("val", "StandardUniform"), "rand": ("val", "R"), "num::Wrapping": ("pfn", "Wrapping.mk")}},
]

# the Rng impls that forward
FUNCS_RNG = []
for fn, ret, params in [("next_u32", "m (BitVec 32)", []), ("next_u64", "m (BitVec 64)", []), ("fill_bytes", "m Unit", ["buf"]), ("jump", "m Unit", [])]:
    FUNCS_RNG.append({"file": "src/rng/chacha.rs", "fn": fn, "header": " Rng for ChaCha<N>", "lean": "ChaCha." + fn, "binders": "(inner : Rng m σ)" + (" (buf : BitVec 64)" if params else ""), "ret": ret,
                      "names": {"self.inner": ("rng", "inner")}, "params": params})
for gen, rel in [("Xoshiro256", "src/rng/xoshiro256.rs"), ("Wyrand", "src/rng/wyrand.rs"), ("SplitMix64", "src/rng/splitmix64.rs")]:
    FUNCS_RNG.append({"file": rel, "fn": "fill_bytes", "header": " Rng for " + gen, "lean": gen + ".fill_bytes",
                      "binders": RB + " (rng_fill_bytes : σ → BitVec 64 → m σ) (assign : σ → m Unit) (buf : BitVec 64)", "ret": "m Unit",
                      "names": {"self": R, "util::rng_fill_bytes": ("fn", "rng_fill_bytes"), "set:self": ("fn", "assign")}, "params": ["buf"]})
FUNCS_RNG += [
    {"file": "src/rng/block.rs", "fn": "jump", "header": " Rng for BlockRngImpl<T>", "lean": "BlockRngImpl.jump", "binders": "(state : Rng m σ) (set_index : BitVec 32 → m Unit)", "ret": "m Unit",
     "names": {"self.state": ("rng", "state"), "set:self.index": ("fn", "set_index"), "!num": ("val", "(~~~ 0#32)")}},
    {"file": "src/rng/system.rs", "fn": "fill_bytes", "header": " Rng for System<N>", "lean": "System.fill_bytes", "binders": "(getentropy_uninit : BitVec 64 → m Unit) (buf : BitVec 64)", "ret": "m Unit",
     "names": {"getentropy_uninit": ("fn", "getentropy_uninit")}, "params": ["buf"]},
    {"file": "src/rng/system.rs", "fn": "jump", "header": " Rng for System<N>", "lean": "System.jump", "binders": "(set_index : BitVec 32 → m Unit)", "ret": "m Unit",
     "names": {"set:self.index": ("fn", "set_index"), "!num": ("val", "(~~~ 0#32)")}},
]


# constructors: src/lib.rs and `new` / `from_rng` of the generators
FUNCS_CTOR = [
    {"file": "src/lib.rs", "fn": "new", "lean": "lib.new", "binders": "{G : Type} (Xoshiro256_new : G)", "ret": "G", "pure": True, "names": {"crate::rng::Xoshiro256::new": ("pfn", "Xoshiro256_new")}},
    {"file": "src/lib.rs", "fn": "seeded", "lean": "lib.seeded", "binders": "{G : Type} (Xoshiro256_from_seed : BitVec 64 → G) (seed : BitVec 64)", "ret": "G", "pure": True,
     "names": {"crate::rng::Xoshiro256::from_seed": ("pfn", "Xoshiro256_from_seed")}, "params": ["seed"]},
    {"file": "src/lib.rs", "fn": "csprng", "lean": "lib.csprng", "binders": "{G : Type} (ChaCha12_new : G)", "ret": "G", "pure": True, "names": {"crate::rng::ChaCha12::new": ("pfn", "ChaCha12_new")}},
]
for gen, rel, header in [("SplitMix64", "src/rng/splitmix64.rs", "impl SplitMix64"), ("Wyrand", "src/rng/wyrand.rs", "impl Wyrand"), ("Xoshiro256", "src/rng/xoshiro256.rs", "impl Xoshiro256")]:
    FUNCS_CTOR.append({"file": rel, "fn": "new", "header": header, "lean": gen + ".new", "binders": "{St G : Type} (getrandom : m St) (mk : St → G)", "ret": "m G",
                       "names": {"util::getrandom": ("fn", "getrandom"), "Random::wrap": ("pfn", "id"), "struct:" + gen: ("pfn", "mk")}})
    if gen == "Xoshiro256":
        FUNCS_CTOR.append({"file": rel, "fn": "from_rng", "header": header, "lean": gen + ".from_rng", "binders": "{St G : Type} (random_bytes : m St) (mk : St → G)", "ret": "m G",
                           "names": {"rand": ("self", "R"), "self.random_bytes": ("fn", "random_bytes"), "Random::wrap": ("pfn", "id"), "struct:" + gen: ("pfn", "mk")}})
    else:
        FUNCS_CTOR.append({"file": rel, "fn": "from_rng", "header": header, "lean": gen + ".from_rng", "binders": RB + " {G : Type} (mk : BitVec 64 → G)", "ret": "m G",
                           "names": {"rand": R, "Random::wrap": ("pfn", "id"), "struct:" + gen: ("pfn", "mk")}})
FUNCS_CTOR += [
    {"file": "src/rng/chacha.rs", "fn": "new", "header": "impl<const N: usize> ChaCha<N>", "lean": "ChaCha.new", "binders": "{St B G : Type} (getrandom : m St) (BlockRngImpl_new : St → B) (mk : B → G)", "ret": "m G",
     "names": {"util::getrandom": ("fn", "getrandom"), "BlockRngImpl::new": ("pfn", "BlockRngImpl_new"), "Random::wrap": ("pfn", "id"), "struct:ChaCha": ("pfn", "mk")}},
    {"file": "src/rng/chacha.rs", "fn": "from_rng", "header": "impl<const N: usize> ChaCha<N>", "lean": "ChaCha.from_rng", "binders": "{St B G : Type} (random_bytes : m St) (BlockRngImpl_new : St → B) (mk : B → G)", "ret": "m G",
     "names": {"rand": ("self", "R"), "self.random_bytes": ("fn", "random_bytes"), "BlockRngImpl::new": ("pfn", "BlockRngImpl_new"), "Random::wrap": ("pfn", "id"), "struct:ChaCha": ("pfn", "mk")}},
]


# src/rng/entropy.rs: both back ends (the first pair of functions is the `getrandom` one, the second the extern `getentropy_raw` one)
FUNCS_ENTROPY = [
    {"file": "src/rng/entropy.rs", "fn": "getentropy", "pick": (0, 2), "lean": "entropy.getrandom_getentropy", "binders": "(getentropy_uninit : Pod → m Pod) (buf : Pod)", "ret": "m Pod",
     "names": {"getentropy_uninit": ("fn", "getentropy_uninit")}, "params": ["buf"]},
    {"file": "src/rng/entropy.rs", "fn": "getentropy_uninit", "pick": (0, 2), "lean": "entropy.getrandom_getentropy_uninit", "binders": "(getrandom_uninit : BitVec 64 → m (Except Unit Unit)) (buf : Pod)", "ret": "m Pod",
     "names": {"getrandom::getrandom_uninit": ("fn", "getrandom_uninit"), "getentropy_not_ready": ("div", "")}, "params": ["buf"]},
    {"file": "src/rng/entropy.rs", "fn": "getentropy", "pick": (1, 2), "lean": "entropy.raw_getentropy", "binders": "(getentropy_uninit : Pod → m Pod) (buf : Pod)", "ret": "m Pod",
     "names": {"getentropy_uninit": ("fn", "getentropy_uninit")}, "params": ["buf"]},
    {"file": "src/rng/entropy.rs", "fn": "getentropy_uninit", "pick": (1, 2), "lean": "entropy.raw_getentropy_uninit", "binders": "(getentropy_raw : Pod → BitVec 64 → m Bool) (buf : Pod)", "ret": "m Pod",
     "names": {"getentropy_raw": ("fn", "getentropy_raw"), "getentropy_not_ready": ("div", "")}, "params": ["buf"]},
    {"file": "src/rng/entropy.rs", "fn": "getentropy_not_ready", "lean": "entropy.not_ready", "binders": "", "ret": "m Unit", "names": {}},
]


def rng_overrides(repo):
    """which methods every `impl .. Rng for ..` block of src/rng/*.rs defines (the others are the trait's defaults)"""
    out = []
    d = os.path.join(repo, "src/rng")
    for f in sorted(os.listdir(d)):
        if not f.endswith(".rs") or f == "tests.rs":
            continue
        text = strip_comments(open(os.path.join(d, f)).read())
        for h, a, b in impl_spans(text):
            m = re.search(r"\bRng for ([\w<>, :'&]+?)(?: where .*)?$", h)
            if m and "SecureRng for" not in h:
                fns = sorted(n for s, n, _ in fn_bodies(text) if a <= s < b)
                out.append((f, " ".join(m.group(1).split()), fns))
    return out


HEADER = """/- GENERATED by tools/extract_glue.py from %s on every run - do not edit. -/
import Urandom.Model.Glue
set_option linter.unusedVariables false
namespace Urandom.Generated.Glue
open Urandom.Glue
variable {m : Type → Type} [Monad m] {σ : Type}

"""


def emit_group(repo, funcs, srcs, extra=""):
    parts = [HEADER % srcs]
    for spec in funcs:
        try:
            text = translate(repo, spec)
        except TranslateError as e:
            raise TranslateError("%s (%s): %s" % (spec["lean"], spec["file"], e))
        if spec.get("pre"):
            head, rest = text.split(":= do\n", 1)
            text = head + ":= do\n  " + spec["pre"] + "\n" + rest
        parts.append(text)
    parts.append(extra)
    parts.append("end Urandom.Generated.Glue\n")
    return "\n".join(parts)


def tuple_arities(repo):
    """src/distr/standard.rs: the tuple macro's body must be `($(<StandardUniform as Distribution<$T>>::sample(&StandardUniform, _rng),)*)` - one sample
    per component, in order - and its invocations are listed by arity"""
    text = strip_comments(open(os.path.join(repo, "src/distr/standard.rs")).read())
    flat = "".join(text.split())
    need = "fnsample<R:Rng+?Sized>(&self,_rng:&mutRandom<R>)->($($T,)*){($(<StandardUniformasDistribution<$T>>::sample(&StandardUniform,_rng),)*)}"
    if need not in flat:
        raise TranslateError("standard.rs: the tuple macro has another shape")
    ar = [len([x for x in m.group(1).split(",") if x.strip()]) for m in re.finditer(r"impl_standard_dist_tuple!\(([^)]*)\);", text)]
    return ar


def chacha_serde(repo):
    """src/rng/chacha.rs: the hand-written `Serialize` / `Deserialize` of `ChaChaState`.  `serialize` must be `[<field>[i], ..].serialize(serializer)`,
    `deserialize` `let values = <[u32; K]>::deserialize(deserializer)?; Ok(ChaChaState { <field>: [values[i], ..], .. })`; the two index tables
    are emitted (the round-trip theorem is about them)."""
    text = strip_comments(open(os.path.join(repo, "src/rng/chacha.rs")).read())
    flat = "".join(text.split())
    m = re.search(r"fnserialize<S:serde::Serializer>\(&self,serializer:S\)->Result<S::Ok,S::Error>\{\[((?:self\.\w+\[\d+\],?)+)\]\.serialize\(serializer\)\}", flat)
    if not m:
        raise TranslateError("chacha.rs: ChaChaState::serialize is not `[self.<field>[i], ..].serialize(serializer)`")
    ser = re.findall(r"self\.(\w+)\[(\d+)\]", m.group(1))
    m = re.search(r"fndeserialize<D:serde::Deserializer<'de>>\(deserializer:D\)->Result<Self,D::Error>\{letvalues=<\[u32;(\d+)\]>::deserialize\(deserializer\)\?;Ok\(ChaChaState\{((?:\w+:\[(?:values\[\d+\],?)+\],?)+)\}\)\}", flat)
    if not m:
        raise TranslateError("chacha.rs: ChaChaState::deserialize is not `let values = <[u32; K]>::deserialize(deserializer)?; Ok(ChaChaState { <field>: [values[i], ..], .. })`")
    k = int(m.group(1))
    de = [(f, [int(x) for x in re.findall(r"values\[(\d+)\]", body)]) for f, body in re.findall(r"(\w+):\[((?:values\[\d+\],?)+)\]", m.group(2))]
    sm = re.search(r"structChaChaState<constN:usize>\{((?:\w+:\[u32;\d+\],?)+)\}", flat)
    if not sm:
        raise TranslateError("chacha.rs: struct ChaChaState has another shape")
    fields = [(f, int(n)) for f, n in re.findall(r"(\w+):\[u32;(\d+)\]", sm.group(1))]
    return ("/-- `ChaChaState`'s fields (arrays of u32) with their lengths -/\ndef chachaFields : List (String × Nat) := [%s]\n\n"
            "/-- `serialize`: the sequence written, as (field, index) -/\ndef chachaSerialize : List (String × Nat) := [%s]\n\n"
            "/-- `deserialize`: the length of the sequence read, and per field the positions its elements are taken from -/\ndef chachaDeserializeLen : Nat := %d\n"
            "def chachaDeserialize : List (String × List Nat) := [%s]\n" % (
                ", ".join('("%s", %d)' % f for f in fields), ", ".join('("%s", %s)' % x for x in ser), k,
                ", ".join('("%s", [%s])' % (f, ", ".join(map(str, ix))) for f, ix in de)))


def generate(repo, out_dir, write):
    DISTR_ENTRY = {"next", "fill", "range", "float01", "sample", "coin_flip", "choose", "choose_mut"}
    core = [f for f in FUNCS_RANDOM if not (f["file"] == "src/random.rs" and f["fn"] in DISTR_ENTRY)]
    entry = [f for f in FUNCS_RANDOM if f["file"] == "src/random.rs" and f["fn"] in DISTR_ENTRY]
    groups = [("GlueRandom.lean", core, "src/random.rs (generator-facing methods), src/rng.rs, src/rng/util.rs", None),
              ("GlueRandomDistr.lean", entry, "src/random.rs (distribution-facing methods)", None),
              ("GlueDistr.lean", FUNCS_DISTR, "src/distr.rs, src/distr/samples.rs, src/distr/uniform.rs", None),
              ("GlueStandard.lean", FUNCS_STANDARD, "src/distr/standard.rs", "std"),
              ("GlueCtor.lean", FUNCS_CTOR, "src/lib.rs and the constructors of src/rng/{splitmix64,wyrand,xoshiro256,chacha}.rs", None),
              ("GlueEntropy.lean", FUNCS_ENTROPY, "src/rng/entropy.rs", None),
              ("GlueSerde.lean", [], "src/rng/chacha.rs (hand-written serde of ChaChaState)", "serde"),
              ("GlueRng.lean", FUNCS_RNG, "src/rng/{chacha,xoshiro256,wyrand,splitmix64,block,system}.rs", "rng")]
    for fname, funcs, srcs, extra in groups:
        try:
            ex = ""
            if extra == "rng":
                ov = rng_overrides(repo)
                ex = "/-- the methods each `impl Rng for ..` block defines itself: (file, type, methods) -/\ndef rngImpls : List (String × String × List String) :=\n  [%s]\n" % (
                    ",\n   ".join('("%s", "%s", [%s])' % (f, t, ", ".join('"%s"' % x for x in fns)) for f, t, fns in ov))
            if extra == "serde":
                ex = chacha_serde(repo)
            if extra == "std":
                ex = "/-- arities of the `impl_standard_dist_tuple!` invocations (body shape checked: one `StandardUniform` sample per component, in order) -/\ndef tupleArities : List Nat := [%s]\n" % ", ".join(str(a) for a in tuple_arities(repo))
            text = emit_group(repo, funcs, srcs, ex)
        except Exception as e:
            msg = str(e).replace("-/", "- /")
            text = "/- tools/extract_glue.py could not translate the current source: %s -/\nimport Urandom.Model.Glue\nnamespace Urandom.Generated.Glue\ndef %s : Nat := translation_of_the_current_source_failed\nend Urandom.Generated.Glue\n" % (msg, fname.split(".")[0])
        write(os.path.join(out_dir, fname), text)


if __name__ == "__main__":
    repo = sys.argv[1] if len(sys.argv) > 1 else "/repo"
    out = sys.argv[2] if len(sys.argv) > 2 else "/tmp/glue_out"
    os.makedirs(out, exist_ok=True)

    def w(p, t):
        open(p, "w").write(t)
        if "could not translate" in t:
            print(p, t.split("\n")[0])
    generate(repo, out, w)
