import sys
M64=(1<<64)-1
def rotl(x,k): return ((x<<k)|(x>>(64-k)))&M64
def adv(s):
    s0,s1,s2,s3=s
    t=(s1<<17)&M64
    s2^=s0; s3^=s1; s1^=s2; s0^=s3; s2^=t; s3=rotl(s3,45)
    return (s0,s1,s2,s3)
def bm(seq):
    # Berlekamp-Massey over GF(2), polys as ints (bit i = coeff x^i), returns connection poly C
    C=1;B=1;L=0;m=1
    n=len(seq)
    for i in range(n):
        d=seq[i]
        for j in range(1,L+1):
            if (C>>j)&1: d^=seq[i-j]
        if d==0: m+=1
        elif 2*L<=i:
            T=C; C^=B<<m; L=i+1-L; B=T; m=1
        else:
            C^=B<<m; m+=1
    return C,L
s=(1,2,3,4)
seq=[]
for i in range(600):
    seq.append(s[0]&1)
    s=adv(s)
C,L=bm(seq)
print("L",L)
# connection poly C: sum c_j x^j with s_i = sum_{j>=1} c_j s_{i-j}; char poly P(x)= x^L * C(1/x)
P=0
for j in range(L+1):
    if (C>>j)&1: P|=1<<(L-j)
print("P=",hex(P))
def clmul(a,b):
    r=0
    while a:
        if a&1: r^=b
        a>>=1; b<<=1
    return r
def pmod(a,P):
    dp=P.bit_length()-1
    while a.bit_length()-1>=dp:
        a^=P<<(a.bit_length()-1-dp)
    return a
def mulmod(a,b): return pmod(clmul(a,b),P)
r=2
for k in range(128): r=mulmod(r,r)
J=[0x180ec6d33cfd0aba, 0xd5a61266f0c9392c, 0xa9582618e03fc9aa, 0x39abdc4529b1661c]
Jp=sum(J[i]<<(64*i) for i in range(4))
print("x^(2^128) mod P == JUMP:", r==Jp)
# check P(T) v = 0 on a random vector
import random
v=tuple(random.getrandbits(64) for _ in range(4))
acc=(0,0,0,0); cur=v
for i in range(257):
    if (P>>i)&1: acc=tuple(a^c for a,c in zip(acc,cur))
    cur=adv(cur)
print("P(T)v==0:",acc==(0,0,0,0))
def powmod(b,e):
    r=1
    while e:
        if e&1: r=mulmod(r,b)
        b=mulmod(b,b); e>>=1
    return r
N=(1<<256)-1
print("x^N==1:",powmod(2,N)==1)
fs=[3,5,17,257,641,65537,274177,6700417,67280421310721,59649589127497217,5704689200685129054721]
pr=1
for f in fs: pr*=f
print("factorization ok:",pr==N)
for q in fs:
    print(q, powmod(2,N//q)!=1)
