import re
from fractions import Fraction as Fr
src=open('/repo/src/distr/ziggurat_tables.rs').read()
def table(name):
    m=re.search(r'pub static '+name+r': \[f64; 257\] =\s*\[(.*?)\];',src,re.S)
    return [Fr(x.strip()) for x in m.group(1).split(',') if x.strip()]
def const(name):
    return Fr(re.search(r'pub const '+name+r': f64 = ([0-9.]+);',src).group(1))
import mpmath as mp
mp.mp.dps=50
for pre,pdf in (('NORM',lambda x: mp.e**(-x*x/2)),('EXP',lambda x: mp.e**(-x))):
    X=table('ZIG_%s_X'%pre); F=table('ZIG_%s_F'%pre); R=const('ZIG_%s_R'%pre)
    print(pre,len(X),len(F),'R==X[1]',R==X[1],'X[256]',X[256],'F[256]',F[256])
    print(' X strictly decreasing',all(X[i]>X[i+1] for i in range(256)),' F strictly increasing',all(F[i]<F[i+1] for i in range(256)))
    v=X[0]*F[1]
    dev=max(abs(X[i]*(F[i+1]-F[i])-v)/v for i in range(1,256))
    print(' base area v=%s max rel dev of layer areas: %.3e'%(float(v),float(dev)))
    dF=max(abs(mp.mpf(F[i].numerator)/F[i].denominator-pdf(mp.mpf(X[i].numerator)/X[i].denominator)) for i in range(257))
    print(' max |F[i]-pdf(X[i])| = %s'%mp.nstr(dF,5))
    if pre=='EXP': print(' X[0]-(R+1)=',float(X[0]-(R+1)))
    else:
        tail=mp.sqrt(mp.pi/2)*mp.erfc(mp.mpf(R.numerator)/R.denominator/mp.sqrt(2))
        fR=pdf(mp.mpf(R.numerator)/R.denominator)
        print(' X[0] - (R + tail/f(R)) =',mp.nstr(mp.mpf(X[0].numerator)/X[0].denominator-(mp.mpf(R.numerator)/R.denominator+tail/fR),5))
