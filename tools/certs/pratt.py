from sympy import factorint, primitive_root, isprime
fs=[3,5,17,257,641,65537,274177,6700417,67280421310721,59649589127497217,5704689200685129054721]
seen={}
def cert(p):
    if p in seen or p<100: return
    assert isprime(p)
    f=factorint(p-1)
    g=primitive_root(p)
    seen[p]=(g,sorted(f))
    for q in f: cert(q)
for p in fs: cert(p)
for p,(g,qs) in sorted(seen.items()):
    print(p,g,qs)
