exec(open('xo.py').read().split("s=(1,2,3,4)")[0])
P=0x10003c03c3f3ecb1904b4edcf26259f850280002bcefd1a5e9d116f2bb0f0f001
def clmul(a,b):
    r=0
    while a:
        if a&1: r^=b
        a>>=1; b<<=1
    return r
def deg(a): return a.bit_length()-1
def pdivmod(a,b):
    q=0
    while a and deg(a)>=deg(b):
        s=deg(a)-deg(b); q^=1<<s; a^=b<<s
    return q,a
def pmod(a): return pdivmod(a,P)[1]
def mulmod(a,b): return pmod(clmul(a,b))
def powmod(b,e):
    r=1
    while e:
        if e&1: r=mulmod(r,b)
        b=mulmod(b,b); e>>=1
    return r
def inv(a):
    # extended Euclid in GF(2)[x] mod P
    r0,r1=P,a; t0,t1=0,1
    while r1:
        q,r=pdivmod(r0,r1)
        r0,r1=r1,r
        t0,t1=t1,t0^clmul(q,t1)
    assert r0==1
    return pmod(t0)
N=(1<<256)-1
q=3
c=powmod(2,N//q)^1
u=inv(c)
assert mulmod(u,c)==1
print(hex(u))
