from sympy import factorint, primitive_root, isprime
fs=[3,5,17,257,641,65537,274177,6700417,67280421310721,59649589127497217,5704689200685129054721]
LIM=10**8
nodes={}
def visit(p):
    if p in nodes: return
    assert isprime(p)
    if p < LIM:
        nodes[p]=None; return
    f=factorint(p-1); g=primitive_root(p)
    nodes[p]=(g,f)
    for q in f: visit(q)
for p in fs: visit(p)
lines=["import Mathlib.NumberTheory.LucasPrimality","import Mathlib.Tactic.NormNum.Prime","import Mathlib.Tactic.ReduceModChar","",
"theorem prime_eq_of_dvd_pow {q p e : ℕ} (hq : q.Prime) (hp : p.Prime) (h : q ∣ p ^ e) : q = p :=",
"  (Nat.prime_dvd_prime_iff_eq hq hp).1 (hq.dvd_of_dvd_pow h)",""]
for p in sorted(nodes):
    if nodes[p] is None:
        lines.append(f"theorem prime_{p} : Nat.Prime {p} := by norm_num")
    else:
        g,f=nodes[p]
        qs=sorted(f)
        prod=" * ".join(f"{q} ^ {f[q]}" for q in qs)
        lines.append(f"theorem prime_{p} : Nat.Prime {p} := by")
        lines.append(f"  apply lucas_primality {p} ({g} : ZMod {p})")
        lines.append(f"  · reduce_mod_char")
        lines.append(f"  · intro q hq hd")
        lines.append(f"    have e : {p} - 1 = {prod} := by norm_num")
        lines.append(f"    rw [e] at hd")
        # build disjunction
        disj=" ∨ ".join(f"q = {q}" for q in qs)
        lines.append(f"    have h : {disj} := by")
        # nested dvd_mul: product is left-assoc ((a*b)*c)*d
        def gen(i,indent,hname):
            # hname : q ∣ (q0^e0 * ... * qi^ei)
            out=[]
            if i==0:
                out.append(" "*indent+f"exact {wrap(0)} (prime_eq_of_dvd_pow hq prime_{qs[0]} {hname})")
            else:
                out.append(" "*indent+f"rcases (Nat.Prime.dvd_mul hq).1 {hname} with h{i} | h{i}")
                out.append(" "*indent+"· "+gen(i-1,indent+2,f"h{i}")[0].lstrip())
                out+=gen(i-1,indent+2,f"h{i}")[1:]
                out.append(" "*indent+f"· exact {wrap(i)} (prime_eq_of_dvd_pow hq prime_{qs[i]} h{i})")
            return out
        def wrap(i):
            # build Or.inr^i (Or.inl ·) except last
            n=len(qs)
            if n==1: return "id"
            s = "Or.inl" if i<n-1 else ""
            for _ in range(i if i<n-1 else n-1):
                s = "Or.inr ∘ "+s if s else "Or.inr"
            # fix: for last index i=n-1: Or.inr^(n-1)
            return "("+s+")"
        lines+=gen(len(qs)-1,6,"hd")
        lines.append(f"    rcases h with "+" | ".join("rfl" for _ in qs))
        for q in qs:
            lines.append(f"    · norm_num; reduce_mod_char; decide")
    lines.append("")
open('/root/scratch/lx2/Primes.lean','w').write("\n".join(lines))
print(len(nodes),"nodes")
