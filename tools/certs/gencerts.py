exec(open('inv.py').read().split("N=(1<<256)-1")[0])
N=(1<<256)-1
fs=[3,5,17,257,641,65537,274177,6700417,67280421310721,59649589127497217,5704689200685129054721]
import os
out='/root/scratch/lx2'
for q in fs:
    c=powmod(2,N//q)^1
    u=inv(c)
    assert mulmod(u,c)==1 and u < (1<<256)
    open(f'{out}/Cert{q}.lean','w').write(f'''import Pw
set_option exponentiation.threshold 300
theorem cert{q} : mulmod 0x{P:x} 256 0x{u:x}
    (powmod 0x{P:x} 256 2 ((2^256 - 1) / {q}) 256 ^^^ 1) = 1 := by decide +kernel
theorem ult{q} : (0x{u:x} : Nat) < 2 ^ 256 := by decide
''')
open(f'{out}/CertN.lean','w').write(f'''import Pw
set_option exponentiation.threshold 300
theorem certN : powmod 0x{P:x} 256 2 (2^256 - 1) 256 = 1 := by decide +kernel
''')
print("ok")
