#!/bin/bash
# usage: try_seeded.sh <seeded id> <property>...   applies the seeded change to /repo, runs the quick checks, undoes it
ID=$1; shift
cd /verif
git -C /repo status --porcelain | grep -q . && { echo "/repo not clean"; exit 2; }
git -C /repo apply /verif/seeded/$ID/patch.diff || exit 2
for P in "$@"; do VERIF_NO_EVIDENCE=1 ./check.py $P --tier quick 2>&1 | grep -v "^KNOWN" | tail -2; done
git -C /repo checkout -- . ; git -C /repo clean -fdq -- src; git -C /repo status --porcelain
