#!/usr/bin/env python3
"""Translator for code that works through a raw pointer and a generator: `util::rng_fill_bytes` (src/rng/util.rs), the byte fill of the three
word generators.

The function body (integer locals, `while` loops, nested `if`s, compound assignments, `rng.next_u64()`, `ptr::copy_nonoverlapping(
<int>.to_le_bytes().as_ptr(), ptr, n)`, `ptr.write(<int> as u8)`, `ptr = ptr.add(n)`) becomes a Lean DEFINITION
(Urandom/Generated/EffectFill.lean) over

  * the destination pointer as a 64-bit OFFSET from the start of `buf` (`buf.as_mut_ptr()` is offset 0, `ptr.add(n)` adds n, wrapping),
  * `buf.len()` as a `BitVec 64` parameter (usize on the 64-bit targets the harness runs on),
  * the generator as an abstract state `σ` with `next_u64 : σ → BitVec 64 × σ`,
  * the stores as a LOG of `PtrWrite` records (offset, number of bytes, width of the integer whose little-endian bytes are stored, value), in
    program order,
  * every `while` as a recursive function with FUEL 2^64; running out of fuel sets the `diverged` flag of the result.

`Props/C10T.lean` proves: for EVERY length below 2^64 the translated function does not diverge and its log and final generator state are those
of the hand-written model `rngFillWrites` (Model/Word.lean) - which C10 (tiling, exactly the destination) and C01 (little-endian word stream)
are proved about.  A 32-bit mask, cast or counter on the length, a changed store width or order, a wrong pointer step - for any length,
including those of 4 GiB and more that no test visits - breaks that proof."""
import os, re, sys
sys.path.insert(0, os.path.dirname(os.path.abspath(__file__)))
from extract_simd import TranslateError, matching
from extract_scalar import P, SP, Fn, parse_fns, WIDTH, lean_ty, retok
from extract_simd import tokenize

UW = dict(WIDTH, usize=64)


class EP(SP):
    """+ `while cond { }`, `unsafe { }` (transparent)"""

    def unary(self):
        if self.at("!"):
            self.eat("op")
            return ("not", self.unary())
        return SP.unary(self)

    def block(self):
        self.eat("op", "{")
        j = matching(self.t, self.i - 1)
        inner = EP(self.t[self.i:j])
        self.i = j + 1
        return ("block",) + inner.body()

    def body(self):
        stmts, tail = [], None
        while self.peek()[0] != "eof":
            if self.at(";"):
                self.eat("op")
                continue
            if self.peek() == ("id", "unsafe") and self.peek(1) == ("op", "{"):
                self.eat("id")
                blk = self.block()
                stmts += blk[1]
                if blk[2] is not None:
                    if self.peek()[0] == "eof":
                        tail = blk[2]
                    else:
                        stmts.append(("expr", blk[2]))
                continue
            s = self.stmt()
            if self.at(";"):
                self.eat("op")
                stmts.append(s)
            elif self.peek()[0] == "eof":
                if s[0] == "expr":
                    tail = s[1]
                else:
                    stmts.append(s)
            elif s[0] in ("for", "if", "loop", "while"):
                stmts.append(s)
            else:
                raise TranslateError("missing `;` after %r" % (s,))
        return stmts, tail

    def stmt(self):
        if self.peek() == ("id", "break") and (self.peek(1) == ("op", ";") or self.peek(1)[0] == "eof"):
            self.eat("id")
            return ("break",)
        if self.peek() == ("id", "while"):
            self.eat("id")
            j = self.i
            while self.t[j] != ("op", "{"):
                j += 1
            cond = EP(self.t[self.i:j]).expr()
            self.i = j
            return ("while", cond, self.block())
        if self.peek() == ("id", "if"):
            self.eat("id")
            j = self.i
            while self.t[j] != ("op", "{"):
                j += 1
            cond = EP(self.t[self.i:j]).expr()
            self.i = j
            then = self.block()
            els = None
            if self.peek() == ("id", "else"):
                self.eat("id")
                els = self.block()
            return ("if", cond, then, els)
        return SP.stmt(self)


class EffFn(Fn):
    PARSER = EP
    WPARAMS = "{σ : Type} (next_u64 : σ → BitVec 64 × σ)"
    WARGS = "next_u64"
    CMP = {">=": "≥", "<=": "≤", "<": "<", ">": ">"}

    def __init__(self, ns, name, body_toks, rng_name, buf_name):
        self.ns, self.rng, self.buf = ns, rng_name, buf_name

        class U:            # the minimal "unit" Fn expects
            fns, consts = {}, {}

            def const_env(self, n):
                return None
        Fn.__init__(self, U(), name, [], None, body_toks)
        self.env[rng_name] = ("var", "rng", ("obj",))
        self.env["log"] = ("var", "log", ("log",))
        self.env["diverged"] = ("var", "diverged", ("bool",))
        self.nwhile = 0

    # ---- what a statement list changes: assigned locals that exist outside it + the generator / the log when it draws / stores
    def targets(self, stmts, acc):
        declared = set()

        def walk_e(e):
            if isinstance(e, tuple):
                if e[0] == "mcall" and e[1] == ("id", self.rng):
                    add("\0rng")
                if self.is_store(e):
                    add("\0log")
                for x in e[1:]:
                    if isinstance(x, (tuple, list)):
                        for y in (x if isinstance(x, list) else [x]):
                            walk_e(y)

        def add(n):
            if n not in acc:
                acc.append(n)

        def walk(ss):
            for s in ss:
                if s[0] == "assign":
                    n = self.base_name(s[1])
                    if n not in declared:
                        add(n)
                    walk_e(s[2])
                elif s[0] == "let":
                    walk_e(s[2])
                    if s[1][0] == "pid":
                        declared.add(s[1][1])
                elif s[0] == "expr":
                    walk_e(s[1])
                elif s[0] == "while":
                    walk(s[2][1])
                    add("\0div")
                elif s[0] == "if":
                    walk(s[2][1])
                    if s[3]:
                        walk(s[3][1])
                else:
                    raise TranslateError("statement %r" % (s[0],))
        walk(stmts)
        # order: locals in order of first assignment, then generator, log, diverged
        out = [n for n in acc if not n.startswith("\0")]
        for tag, n in (("\0rng", self.rng), ("\0log", "log"), ("\0div", "diverged")):
            if tag in acc:
                out.append(n)
        acc[:] = out
        return acc

    LOGTY = "List PtrWrite"

    def is_store(self, e):
        return (e[0] == "call" and e[1].endswith("copy_nonoverlapping")) or (e[0] == "mcall" and e[2] == "write")

    def state_types(self, names):
        out = []
        for n in names:
            ty = self.env[n][2]
            out.append({"obj": "σ", "log": self.LOGTY, "bool": "Bool"}.get(ty[0]) or lean_ty(ty))
        return out

    def typed(self, e):
        k = e[0]
        if k == "cast" and e[2][0] in UW:
            return ("u", UW[e[2][0]])
        if k == "mcall" and e[1] == ("id", self.buf) and e[2] == "len":
            return ("u", 64)
        if k == "mcall" and e[1] == ("id", self.rng):
            return ("u", 32 if e[2].endswith("32") else 64)
        if k == "mcall" and e[2] == "add":
            return ("u", 64)
        if k == "bin" and e[1] in self.CMP:
            return ("bool",)
        return Fn.typed(self, e)

    def expr(self, e, expect=None):
        k = e[0]
        if k == "cast":
            if e[2][:1] == ["*"]:                       # `buf.as_mut_ptr() as *mut u8`
                if e[1] == ("mcall", ("id", self.buf), "as_mut_ptr", []):
                    return "0#64", ("u", 64)
                raise TranslateError("pointer cast of %r" % (e[1],))
            if e[2][0] in UW:
                t, ty = self.expr(e[1], None if e[1][0] != "num" else ("u", UW[e[2][0]]))
                w = UW[e[2][0]]
                return (t if ty == ("u", w) else "((%s).setWidth %d)" % (t, w)), ("u", w)
        if k == "mcall" and e[1] == ("id", self.buf) and e[2] == "len" and not e[3]:
            return "buf_len", ("u", 64)
        if k == "mcall" and e[1] == ("id", self.rng):
            if e[2] != "next_u64" or e[3]:
                raise TranslateError("generator method %s" % e[2])
            self.tmp = getattr(self, "tmp", 0) + 1
            r = "w%d" % self.tmp
            self.lines.append("let (%s, rng) := next_u64 rng" % r)
            return r, ("u", 64)
        if k == "mcall" and e[2] == "add" and len(e[3]) == 1:            # ptr.add(n)
            l, lt = self.expr(e[1])
            r, _ = self.expr(e[3][0], lt)
            return "(%s + %s)" % (l, r), lt
        if k == "bin" and e[1] in self.CMP:
            ty = self.typed(e[2]) or self.typed(e[3]) or expect
            l, lt = self.expr(e[2], ty)
            r, _ = self.expr(e[3], lt)
            return "(%s %s %s)" % (l, self.CMP[e[1]], r), ("bool",)
        return Fn.expr(self, e, expect)

    def store(self, dst, n, val):
        """one store of the first n little-endian bytes of the integer expression `val`"""
        v, vt = self.expr(val)
        if vt[0] != "u":
            raise TranslateError("store of a non-integer")
        d, dt = self.expr(dst)
        cnt = n if isinstance(n, int) else None
        if cnt is None:
            if n[0] != "num":
                raise TranslateError("store of a variable number of bytes")
            cnt = n[1]
        self.lines.append("let log := log ++ [PtrWrite.mk %s %d %d (%s)]" % (d, cnt, vt[1], v if vt[1] == 64 else "(%s).setWidth 64" % v))

    def run(self, stmts):
        for s in stmts:
            k = s[0]
            if k == "expr" and s[1][0] == "call" and s[1][1].endswith("copy_nonoverlapping"):
                src, dst, n = s[1][2]
                # <int>.to_le_bytes().as_ptr()
                if not (src[0] == "mcall" and src[2] == "as_ptr" and src[1][0] == "mcall" and src[1][2] == "to_le_bytes"):
                    raise TranslateError("copy source %r" % (src,))
                self.store(dst, n, src[1][1])
            elif k == "expr" and s[1][0] == "mcall" and s[1][2] == "write" and len(s[1][3]) == 1:
                val = s[1][3][0]
                if not (val[0] == "cast" and val[2] == ["u8"]):
                    raise TranslateError("ptr.write of %r" % (val,))
                self.store(s[1][1], 1, val)
            elif k == "let" and s[1][0] == "pid" and s[2][0] != "num":
                t, ty = self.expr(s[2])
                self.env[s[1][1]] = ("var", s[1][1], ty)
                self.lines.append("let %s := %s" % (s[1][1], t))
            elif k == "while":
                cond, body = s[1], s[2]
                names = self.targets([s], [])
                names = [n for n in names if n in self.env]
                st, tys = self.state_names(names), self.state_types(names)
                tup = "(%s)" % ", ".join(st)
                saved_env, saved_lines = dict(self.env), self.lines
                self.lines = []
                c, _ = self.expr(cond)
                pre = self.lines
                if pre:
                    raise TranslateError("loop condition with an effect")
                self.lines = []
                self.run(body[1])
                inner = self.lines
                self.lines, self.env = saved_lines, saved_env
                text = "\n".join(inner) + c
                free = [(v[1], lean_ty(v[2])) for n, v in saved_env.items()
                        if v[0] == "var" and v[2][0] == "u" and v[1] not in st and re.search(r"\b%s\b" % re.escape(v[1]), text)]
                if re.search(r"\bbuf_len\b", text) and "buf_len" not in st:
                    free.append(("buf_len", "BitVec 64"))
                self.nwhile += 1
                wname = "%s_while%d" % (self.name, self.nwhile)
                self.aux.append((
                    "def %s " + self.WPARAMS + " %s : Nat → %s → %s\n"
                    "  | 0, st =>\n"
                    "    let %s := st\n"
                    "    (%s)\n"
                    "  | fuel + 1, st =>\n"
                    "    let %s := st\n"
                    "    if %s then\n%s\n      %s " + self.WARGS + " %s fuel %s\n    else st\n") % (
                        wname, " ".join("(%s : %s)" % f for f in free), " × ".join(tys), " × ".join(tys),
                        tup, ", ".join(x if x != "diverged" else "true" for x in st),
                        tup, c, "\n".join("      " + l for l in inner), wname, " ".join(f[0] for f in free), tup))
                self.lines.append("let %s := %s %s %s (2 ^ 64) %s" % (tup, wname, self.WARGS, " ".join(f[0] for f in free), tup))
            elif k == "if":
                cond, then, els = s[1], s[2], s[3]
                names = [n for n in self.targets([s], []) if n in self.env]
                st = self.state_names(names)
                tup = "(%s)" % ", ".join(st)
                c, _ = self.expr(cond)
                branches = []
                for blk in (then, els):
                    saved_env, saved_lines = dict(self.env), self.lines
                    self.lines = []
                    if blk:
                        self.run(blk[1])
                    branches.append(self.lines)
                    self.lines, self.env = saved_lines, saved_env
                self.lines.append("let %s := if %s then" % (tup, c))
                for l in branches[0]:
                    self.lines.append("      " + l)
                self.lines.append("      %s" % tup)
                self.lines.append("    else")
                for l in branches[1]:
                    self.lines.append("      " + l)
                self.lines.append("      %s" % tup)
            else:
                Fn.run(self, [s])

    def lean(self):
        self.lines, self.result, self.aux = [], self.tail, []
        self.lines.append("let log : List PtrWrite := []")
        self.lines.append("let diverged := false")
        self.run(self.stmts)
        if self.result is not None:
            raise TranslateError("a result value")
        body = "\n".join("  " + l for l in self.lines + ["(log, rng, diverged)"])
        return "".join(a + "\n" for a in self.aux) + (
            "def %s {σ : Type} (next_u64 : σ → BitVec 64 × σ) (rng : σ) (buf_len : BitVec 64) : List PtrWrite × σ × Bool :=\n%s\n" % (self.name, body))


def rng_fill_bytes(repo):
    raw, _ = parse_fns(open(os.path.join(repo, "src/rng/util.rs")).read())
    cands = raw.get("rng_fill_bytes", [])
    if len(cands) != 1:
        raise TranslateError("src/rng/util.rs: rng_fill_bytes not found (or not unique)")
    params, ret, body = cands[0]
    if [p[0] for p in params] != ["rng", "buf"] or ret is not None:
        raise TranslateError("rng_fill_bytes: signature %r" % ([p[0] for p in params],))
    return EffFn("Urandom.Generated.Effect", "rng_fill_bytes", body, "rng", "buf").lean()


def generate(repo, out_dir, write):
    head = ("/- GENERATED by tools/extract_effect.py from src/rng/util.rs (rng_fill_bytes) on every run - do not edit. -/\n"
            "import Urandom.Model.Effect\nset_option linter.unusedVariables false\nnamespace Urandom.Generated.Effect\nopen Urandom\n\n")
    try:
        text = head + rng_fill_bytes(repo) + "\nend Urandom.Generated.Effect\n"
    except Exception as e:
        msg = ("%s: %s" % (type(e).__name__, e)).replace("-/", "- /")
        text = ("/- tools/extract_effect.py could not translate the current source: %s -/\n"
                "namespace Urandom.Generated.Effect\ndef translation_failed_EffectFill : Nat := translation_of_the_current_source_failed\nend Urandom.Generated.Effect\n" % msg)
    write(os.path.join(out_dir, "EffectFill.lean"), text)
    generate_block(repo, out_dir, write)




# ------------------------------------------------------------------------------------------------ BlockRngImpl::next_u32 / next_u64 (src/rng/block.rs)
class BlockFn(EffFn):
    """`impl Rng for BlockRngImpl<T>`: `next_u32` / `next_u64`.  The object is its `index` field (a u32, `self_index`); the size of the block
    (`mem::size_of_val(&self.random)`) is the parameter `BLOCK`; `self.state.generate(&mut self.random)` is the event `BlockEv.gen`; the value
    `uN::from_le_bytes([random[a], random[b], ..])` (with `random = bytes(&self.random)`) is the event `BlockEv.load [a, b, ..]`: the little-endian
    integer of the bytes at these offsets of the block as it is AT THAT POINT of the event log.  Result: (events, index field afterwards)."""

    def __init__(self, name, body_toks):
        EffFn.__init__(self, "Urandom.Generated.Effect.block", name, body_toks, "\0none", "\0none")
        del self.env["\0none"]
        self.env["self_index"] = ("var", "self_index", ("u", 32))
        self.aliases = set()

    def is_self(self, e, field):
        return e == ("field", ("id", "self"), field)

    def is_block(self, e):
        while e[0] in ("ref", "deref"):
            e = e[2] if e[0] == "ref" else e[1]
        return self.is_self(e, "random")

    def targets(self, stmts, acc):
        def walk_e(e):
            return isinstance(e, tuple) and ((e[0] == "mcall" and e[2] == "generate") or (e[0] == "call" and e[1].endswith("from_le_bytes"))
                                             or any(walk_e(y) for x in e[1:] if isinstance(x, (tuple, list)) for y in (x if isinstance(x, list) else [x])))

        def walk(ss):
            for s in ss:
                if s[0] == "assign":
                    n = "self_index" if self.is_self(s[1], "index") else self.base_name(s[1])
                    if n not in acc:
                        acc.append(n)
                if s[0] in ("assign", "let", "expr") and walk_e(s[2] if s[0] != "expr" else s[1]) and "log" not in acc:
                    acc.append("log")
                if s[0] == "if":
                    walk(s[2][1])
                    if s[3]:
                        walk(s[3][1])
                if s[0] in ("while", "loop", "for"):
                    raise TranslateError("a loop in %s" % self.name)
        walk(stmts)
        if "log" in acc:
            acc.remove("log")
            acc.append("log")
        return acc

    def state_types(self, names):
        return [{"log": "List BlockEv"}.get(self.env[n][2][0]) or lean_ty(self.env[n][2]) for n in names]

    def typed(self, e):
        if self.is_self(e, "index"):
            return ("u", 32)
        if e[0] == "call" and e[1].endswith("size_of_val"):
            return ("u", 64)
        return EffFn.typed(self, e)

    def expr(self, e, expect=None):
        if self.is_self(e, "index"):
            return "self_index", ("u", 32)
        if e[0] == "call" and e[1].endswith("size_of_val") and len(e[2]) == 1 and self.is_block(e[2][0]):
            return "BLOCK", ("u", 64)
        if e[0] == "call" and re.match(r"u(32|64)::from_le_bytes$", e[1]) and len(e[2]) == 1 and e[2][0][0] == "array":
            offs = []
            for b in e[2][0][1]:
                if not (b[0] == "index" and b[1][0] == "id" and b[1][1] in self.aliases):
                    raise TranslateError("from_le_bytes of %r" % (b,))
                offs.append(self.expr(b[2], ("u", 64))[0])
            w = int(e[1][1:3])
            if len(offs) * 8 != w:
                raise TranslateError("from_le_bytes of %d bytes for a u%d" % (len(offs), w))
            self.lines.append("let log := log ++ [BlockEv.load [%s]]" % ", ".join(offs))
            return "()", ("value", w)
        return EffFn.expr(self, e, expect)

    def run(self, stmts):
        for s in stmts:
            if s[0] == "expr" and s[1][0] == "mcall" and s[1][2] == "generate" and self.is_self(s[1][1], "state") and len(s[1][3]) == 1 and self.is_block(s[1][3][0]):
                self.lines.append("let log := log ++ [BlockEv.gen]")
            elif s[0] == "let" and s[1][0] == "pid" and s[2][0] == "call" and s[2][1] == "bytes" and len(s[2][2]) == 1 and self.is_block(s[2][2][0]):
                self.aliases.add(s[1][1])                                   # let random = bytes(&self.random);
            elif s[0] == "let" and s[1][0] == "pid" and s[2][0] == "call" and s[2][1].endswith("from_le_bytes"):
                _, ty = self.expr(s[2])
                self.env[s[1][1]] = ("var", "()", ty)
            elif s[0] == "assign" and self.is_self(s[1], "index"):
                t, _ = self.expr(s[2], ("u", 32))
                self.lines.append("let self_index := %s" % t)
            else:
                EffFn.run(self, [s])

    def lean(self, width):
        self.lines, self.result, self.aux = [], self.tail, []
        self.env["log"] = ("var", "log", ("log",))
        self.lines.append("let log : List BlockEv := []")
        self.run(self.stmts)
        if self.result is None:
            raise TranslateError("%s: no result" % self.name)
        t, ty = self.expr(self.result)
        if ty != ("value", width):
            raise TranslateError("%s: the result is not the loaded value" % self.name)
        loads = sum(1 for l in self.lines if "BlockEv.load" in l)
        if loads != 1:
            raise TranslateError("%s: %d loads" % (self.name, loads))
        body = "\n".join("  " + l for l in self.lines + ["(log, self_index)"])
        return "def %s (self_index : BitVec 32) (BLOCK : BitVec 64) : List BlockEv × BitVec 32 :=\n%s\n" % (self.name, body)


def block_serde(repo):
    """the serde helpers of src/rng/block.rs and the attributes that name them: `index` must carry
    `serde(default = "default_index::<T>", skip_serializing_if = "is_index_oob::<T>")`, `random` `serde(default, skip_serializing_if = "is_default")`;
    `is_index_oob(value)` and `default_index()` become functions over `BitVec 32` (the block size is the parameter `BLOCK`),
    `is_default(value)` must be `*value == T::default()`; `BlockRngImpl::new` must set `index: !0` and `random: T::Output::default()`."""
    src = open(os.path.join(repo, "src/rng/block.rs")).read()
    text = re.sub(r"//[^\n]*", "", src)
    flat = "".join(text.split())
    for need, what in (('#[cfg_attr(feature="serde",serde(default="default_index::<T>",skip_serializing_if="is_index_oob::<T>"))]index:u32,', "the serde attributes of `index`"),
                       ('#[cfg_attr(feature="serde",serde(default,skip_serializing_if="is_default"))]random:T::Output,', "the serde attributes of `random`"),
                       ('fnis_default<T:Default+PartialEq>(value:&T)->bool{*value==T::default()}', "is_default"),
                       ('BlockRngImpl{state,index:!0,random:T::Output::default(),}', "BlockRngImpl::new")):
        if need not in flat:
            raise TranslateError("src/rng/block.rs: %s" % what)
    raw, _ = parse_fns(src)
    out = []
    for name in ("is_index_oob", "default_index"):
        c = raw.get(name, [])
        if len(c) != 1:
            raise TranslateError("src/rng/block.rs: %s not found" % name)
        params, ret, body = c[0]
        sz = retok(tokenize("mem::size_of::<T::Output>()"))
        b2, i = [], 0
        while i < len(body):
            if body[i:i + len(sz)] == sz:
                b2.append(("id", "__BLOCK_SIZE"))
                i += len(sz)
            else:
                b2.append(body[i])
                i += 1
        fn = EffFn("Urandom.Generated.Effect.block", name, b2, "\0none", "\0none")
        fn.env = {"value": ("var", "value", ("u", 32))}
        fn.lines = []
        if fn.stmts or fn.tail is None:
            raise TranslateError("src/rng/block.rs: %s is not one expression" % name)
        e = fn.tail

        def ex(e, expect=None):
            if e[0] == "not" and e[1] == ("num", 0):
                return "4294967295#32", ("u", 32)
            if e[0] == "cast" and e[2] == ["u32"] and e[1] == ("id", "__BLOCK_SIZE"):
                return "(BLOCK.setWidth 32)", ("u", 32)
            if e[0] == "deref":
                return ex(e[1], expect)
            if e[0] == "bin" and e[1] in EffFn.CMP:
                l, lt = ex(e[2])
                r, rt = ex(e[3], lt)
                return "decide (%s %s %s)" % (l, EffFn.CMP[e[1]], r), ("bool",)
            return fn.expr(e, expect)
        t, ty = ex(e)
        if name == "is_index_oob":
            if ty != ("bool",) or [p[0] for p in params] != ["value"]:
                raise TranslateError("src/rng/block.rs: is_index_oob")
            out.append("def is_index_oob (BLOCK : BitVec 64) (value : BitVec 32) : Bool :=\n  %s\n" % t)
        else:
            if ty != ("u", 32) or params:
                raise TranslateError("src/rng/block.rs: default_index")
            out.append("def default_index : BitVec 32 :=\n  %s\n" % t)
    return "namespace block\n" + "\n".join(out) + "end block\n"


def block_methods(repo):
    raw, _ = parse_fns(open(os.path.join(repo, "src/rng/block.rs")).read())
    helpers = {n: v for n, v in raw.items() if n not in ("next_u32", "next_u64", "fill_bytes", "jump", "new", "generate", "bytes", "is_default", "is_index_oob", "default_index")}
    if helpers:
        raise TranslateError("src/rng/block.rs: helper functions %s (not inlined by this translator)" % sorted(helpers))
    out = ["namespace block"]
    for m, w in (("next_u32", 32), ("next_u64", 64)):
        cands = [f for f in raw.get(m, []) if f[0] and f[0][0][0] == "self"]
        if len(cands) != 1:
            raise TranslateError("src/rng/block.rs: %s not found (or not unique)" % m)
        out.append(BlockFn(m, cands[0][2]).lean(w))
    out.append("end block\n")
    return "\n".join(out)


def generate_block(repo, out_dir, write):
    head = ("/- GENERATED by tools/extract_effect.py from src/rng/block.rs (next_u32, next_u64) on every run - do not edit. -/\n"
            "import Urandom.Model.Effect\nset_option linter.unusedVariables false\nnamespace Urandom.Generated.Effect\nopen Urandom\n\n")
    try:
        text = head + block_methods(repo) + "\n" + block_serde(repo) + "\nend Urandom.Generated.Effect\n"
    except Exception as e:
        msg = ("%s: %s" % (type(e).__name__, e)).replace("-/", "- /")
        text = ("/- tools/extract_effect.py could not translate the current source: %s -/\n"
                "namespace Urandom.Generated.Effect\ndef translation_failed_EffectBlock : Nat := translation_of_the_current_source_failed\nend Urandom.Generated.Effect\n" % msg)
    write(os.path.join(out_dir, "EffectBlock.lean"), text)


if __name__ == "__main__":
    print(rng_fill_bytes(os.environ.get("VERIF_REPO", "/repo")))
    print(block_methods(os.environ.get("VERIF_REPO", "/repo")))


# ------------------------------------------------------------------------------------------------ BlockRngImpl::fill_bytes (src/rng/block.rs)
def rewrite_open_slices(toks):
    """`NAME[E..]` -> `__slice_from(NAME, E)` (the expression parser has no range syntax)"""
    out, i = [], 0
    while i < len(toks):
        t = toks[i]
        if t == ("op", "[") and out and out[-1][0] == "id":
            j = matching(toks, i)
            if toks[j - 1] == ("op", ".."):
                name = out.pop()
                out += [("id", "__slice_from"), ("op", "("), name, ("op", ",")] + rewrite_open_slices(toks[i + 1:j - 1]) + [("op", ")")]
                i = j + 1
                continue
        out.append(t)
        i += 1
    return out


class BlockFillFn(EffFn):
    """`BlockRngImpl::fill_bytes`.  The destination slice `buf` is the pair (`buf_off`, `buf_len`) of 64-bit values (offset from the start of
    the caller's buffer, length): `buf.len()` is `buf_len`, `buf = &mut buf[n..]` adds n to the offset and subtracts it from the length and sets
    the flag `oob` when n exceeds the length (Rust would panic).  A shared slice of the block (`bytes(&self.random)`, `&random[start..]`) is the
    pair (offset into the block, length).  `self.index` is `self_index` (u32), the block size `BLOCK`.  Events, in program order:
    `FillEv.genTmp` / `genRandom` (`self.state.generate(&mut tmp)` / `(&mut self.random)`), `copyTmp dst n` (n bytes from the start of `tmp`
    to destination offset dst), `copyRandom src dst n` (n bytes from offset src of the block).  `while` and `loop` are recursive functions with
    fuel 2^64 and a `diverged` flag; a `break` must be the last statement of a branch of the last `if` of the loop body."""
    WPARAMS = "(BLOCK : BitVec 64)"
    WARGS = "BLOCK"

    def __init__(self, name, body_toks):
        EffFn.__init__(self, "Urandom.Generated.Effect.block", name, rewrite_open_slices(body_toks), "\0none", "buf")
        del self.env["\0none"]
        self.env["self_index"] = ("var", "self_index", ("u", 32))
        self.env["buf_off"] = ("var", "buf_off", ("u", 64))
        self.env["buf_len"] = ("var", "buf_len", ("u", 64))
        self.env["oob"] = ("var", "oob", ("bool",))
        self.env["brk"] = ("var", "brk", ("bool",))
        self.slices = {}          # rust name -> (lean offset text, lean length text)   (slices of the block)
        self.tmps = set()
        self.nloop = 0

    def is_self(self, e, field):
        return e == ("field", ("id", "self"), field)

    def is_block(self, e):
        while e[0] in ("ref", "deref"):
            e = e[2] if e[0] == "ref" else e[1]
        return self.is_self(e, "random")

    def is_tmp(self, e):
        while e[0] in ("ref", "deref", "cast"):
            e = e[2] if e[0] == "ref" else e[1]
        return e[0] == "id" and e[1] in self.tmps

    # ---- what a statement list changes
    def targets(self, stmts, acc):
        found = []

        def add(n):
            if n not in found:
                found.append(n)

        def walk_e(e):
            if isinstance(e, tuple):
                if (e[0] == "mcall" and e[2] == "generate") or (e[0] == "call" and e[1].endswith("copy_nonoverlapping")):
                    add("log")
                if e[0] == "call" and e[1] == "__slice_from":
                    add("oob")
                for x in e[1:]:
                    if isinstance(x, (tuple, list)):
                        for y in (x if isinstance(x, list) else [x]):
                            walk_e(y)

        def walk(ss, declared):
            for s in ss:
                if s[0] == "assign":
                    if self.is_self(s[1], "index"):
                        add("self_index")
                    elif s[1] == ("id", "buf"):
                        add("buf_off")
                        add("buf_len")
                    else:
                        n = self.base_name(s[1])
                        if n not in declared:
                            add(n)
                    walk_e(s[2])
                elif s[0] == "let":
                    walk_e(s[2])
                    if s[1][0] == "pid":
                        declared.add(s[1][1])
                elif s[0] == "expr":
                    walk_e(s[1])
                elif s[0] == "while":
                    walk(s[2][1], set(declared))
                    add("diverged")
                elif s[0] == "loop":
                    walk(s[1][1], set(declared))
                    add("diverged")
                elif s[0] == "if":
                    walk(s[2][1], set(declared))
                    if s[3]:
                        walk(s[3][1], set(declared))
                elif s[0] == "break":
                    add("brk")
                else:
                    raise TranslateError("statement %r" % (s[0],))
        walk(stmts, set())
        order = ["self_index", "buf_off", "buf_len"]
        out = [n for n in found if n not in order + ["log", "oob", "diverged", "brk"]] + [n for n in order + ["log", "oob", "diverged", "brk"] if n in found]
        acc[:] = out
        return acc

    def state_types(self, names):
        return [{"log": "List FillEv", "bool": "Bool"}.get(self.env[n][2][0]) or lean_ty(self.env[n][2]) for n in names]

    def typed(self, e):
        if self.is_self(e, "index"):
            return ("u", 32)
        if e[0] == "call" and (e[1].endswith("size_of_val") or e[1] in ("usize::min", "usize::max")):
            return ("u", 64)
        if e[0] == "mcall" and e[2] == "len":
            return ("u", 64)
        return EffFn.typed(self, e)

    def expr(self, e, expect=None):
        if self.is_self(e, "index"):
            return "self_index", ("u", 32)
        if e[0] == "call" and e[1].endswith("size_of_val") and len(e[2]) == 1 and (self.is_block(e[2][0]) or self.is_tmp(e[2][0])):
            return "BLOCK", ("u", 64)
        if e[0] == "mcall" and e[2] == "len" and not e[3] and e[1][0] == "id":
            if e[1][1] == "buf":
                return "buf_len", ("u", 64)
            if e[1][1] in self.slices:
                return self.slices[e[1][1]][1], ("u", 64)
        if e[0] == "call" and e[1] in ("usize::min", "usize::max") and len(e[2]) == 2:
            a, _ = self.expr(e[2][0], ("u", 64))
            b, _ = self.expr(e[2][1], ("u", 64))
            return "(if %s %s %s then %s else %s)" % (a, "≤" if e[1].endswith("min") else "≥", b, a, b), ("u", 64)
        return EffFn.expr(self, e, expect)

    def dst_is_buf(self, e):
        return e == ("cast", ("mcall", ("id", "buf"), "as_mut_ptr", []), ["*", "mut", "u8"])

    def run(self, stmts):
        for idx, s in enumerate(stmts):
            k = s[0]
            if k == "let" and s[1][0] == "pid" and s[2][0] == "call" and s[2][1].endswith("::default") and not s[2][2]:
                self.tmps.add(s[1][1])                                               # let mut tmp = T::Output::default();
            elif k == "let" and s[1][0] == "pid" and s[2][0] == "call" and s[2][1] == "bytes" and len(s[2][2]) == 1 and self.is_block(s[2][2][0]):
                self.slices[s[1][1]] = ("0#64", "BLOCK")                              # let random = bytes(&self.random);
            elif k == "let" and s[1][0] == "pid" and s[2][0] == "ref" and s[2][2][0] == "call" and s[2][2][1] == "__slice_from":
                base, start = s[2][2][2]                                               # let src = &random[start..];
                if not (base[0] == "id" and base[1] in self.slices):
                    raise TranslateError("slice of %r" % (base,))
                o, l = self.slices[base[1]]
                st, _ = self.expr(start, ("u", 64))
                n = s[1][1]
                self.lines.append("let oob := oob || decide (%s > %s)" % (st, l))
                self.lines.append("let %s_off := (%s + %s)" % (n, o, st))
                self.lines.append("let %s_len := (%s - %s)" % (n, l, st))
                self.slices[n] = ("%s_off" % n, "%s_len" % n)
                self.env["%s_off" % n] = ("var", "%s_off" % n, ("u", 64))
                self.env["%s_len" % n] = ("var", "%s_len" % n, ("u", 64))
            elif k == "assign" and s[1] == ("id", "buf"):
                e = s[2]                                                               # buf = &mut buf[n..];
                if not (e[0] == "ref" and e[2][0] == "call" and e[2][1] == "__slice_from" and e[2][2][0] == ("id", "buf")):
                    raise TranslateError("assignment to buf: %r" % (e,))
                n, _ = self.expr(e[2][2][1], ("u", 64))
                self.lines.append("let oob := oob || decide (%s > buf_len)" % n)
                self.lines.append("let buf_off := (buf_off + %s)" % n)
                self.lines.append("let buf_len := (buf_len - %s)" % n)
            elif k == "assign" and self.is_self(s[1], "index"):
                e = s[2]
                if e[0] == "bin" and e[2] == s[1]:
                    r, _ = self.expr(e[3], ("u", 32))
                    t = "(self_index %s %s)" % ({"+": "+", "-": "-"}[e[1]], r)
                else:
                    t, _ = self.expr(e, ("u", 32))
                self.lines.append("let self_index := %s" % t)
            elif k == "expr" and s[1][0] == "mcall" and s[1][2] == "generate" and self.is_self(s[1][1], "state") and len(s[1][3]) == 1:
                if self.is_block(s[1][3][0]):
                    self.lines.append("let log := log ++ [FillEv.genRandom]")
                elif self.is_tmp(s[1][3][0]):
                    self.lines.append("let log := log ++ [FillEv.genTmp]")
                else:
                    raise TranslateError("generate into %r" % (s[1][3][0],))
            elif k == "expr" and s[1][0] == "call" and s[1][1].endswith("copy_nonoverlapping"):
                src, dst, n = s[1][2]
                if not self.dst_is_buf(dst):
                    raise TranslateError("copy destination %r" % (dst,))
                nt, _ = self.expr(n, ("u", 64))
                if src[0] == "cast" and self.is_tmp(src):
                    self.lines.append("let log := log ++ [FillEv.copyTmp buf_off %s]" % nt)
                elif src[0] == "mcall" and src[2] == "as_ptr" and src[1][0] == "id" and src[1][1] in self.slices:
                    self.lines.append("let log := log ++ [FillEv.copyRandom %s buf_off %s]" % (self.slices[src[1][1]][0], nt))
                    self.lines.append("let oob := oob || decide (%s > %s)" % (nt, self.slices[src[1][1]][1]))
                else:
                    raise TranslateError("copy source %r" % (src,))
                self.lines.append("let oob := oob || decide (%s > buf_len)" % nt)
            elif k == "break":
                if idx != len(stmts) - 1:
                    raise TranslateError("break is not the last statement of its block")
                self.lines.append("let brk := true")
            elif k == "loop":
                body = s[1][1]
                if not body or body[-1][0] != "if":
                    raise TranslateError("loop body does not end in an if")
                names = [n for n in self.targets([s], []) if n in self.env]
                if "brk" not in names:
                    raise TranslateError("loop without break")
                st, tys = self.state_names(names), self.state_types(names)
                tup = "(%s)" % ", ".join(st)
                saved_env, saved_lines, saved_slices = dict(self.env), self.lines, dict(self.slices)
                self.lines = []
                self.run(body)
                inner = self.lines
                self.lines, self.env, self.slices = saved_lines, saved_env, saved_slices
                self.nloop += 1
                lname = "%s_loop%d" % (self.name, self.nloop)
                self.aux.append((
                    "def %s (BLOCK : BitVec 64) : Nat → %s → %s\n"
                    "  | 0, st =>\n    let %s := st\n    (%s)\n"
                    "  | fuel + 1, st =>\n    let %s := st\n%s\n    if brk then %s else %s BLOCK fuel %s\n") % (
                        lname, " × ".join(tys), " × ".join(tys), tup, ", ".join(x if x != "diverged" else "true" for x in st),
                        tup, "\n".join("    " + l for l in inner), tup, lname, tup))
                self.lines.append("let brk := false")
                self.lines.append("let %s := %s BLOCK (2 ^ 64) %s" % (tup, lname, tup))
            else:
                EffFn.run(self, [s])

    def lean(self):
        self.lines, self.result, self.aux = [], self.tail, []
        self.env["log"] = ("var", "log", ("log",))
        for l in ("let log : List FillEv := []", "let diverged := false", "let oob := false", "let brk := false", "let buf_off := 0#64", "let buf_len := buf_len0"):
            self.lines.append(l)
        self.run(self.stmts)
        if self.result is not None:
            raise TranslateError("a result value")
        body = "\n".join("  " + l for l in self.lines + ["(log, self_index, oob, diverged)"])
        return "".join(a + "\n" for a in self.aux) + (
            "def %s (self_index : BitVec 32) (BLOCK : BitVec 64) (buf_len0 : BitVec 64) : List FillEv × BitVec 32 × Bool × Bool :=\n%s\n" % (self.name, body))


def block_fill(repo):
    raw, _ = parse_fns(open(os.path.join(repo, "src/rng/block.rs")).read())
    cands = [f for f in raw.get("fill_bytes", []) if f[0] and f[0][0][0] == "self"]
    if len(cands) != 1:
        raise TranslateError("src/rng/block.rs: fill_bytes not found (or not unique)")
    return "namespace block\n" + BlockFillFn("fill_bytes", cands[0][2]).lean() + "end block\n"


# ------------------------------------------------------------------------------------------------ System<N>::next_u32 / next_u64 (src/rng/system.rs)
class SysFn(EffFn):
    """`impl Rng for System<N>`: `next_u32` / `next_u64` as event logs, in program order: `SysEv.setIndex v` (an assignment to `self.index` -
    its position relative to the fetch matters, a failing fetch panics), `SysEv.fetch` (`getentropy(&mut self.random)`), `SysEv.load i`
    (the read of the word `self.random[i]`; out of bounds panics).  Second component: the indices of the words that make up the result, LOW word
    first (`value` / `high << 32 | low`).  `N` is a 64-bit parameter."""

    def __init__(self, name, body_toks):
        EffFn.__init__(self, "Urandom.Generated.Effect.system", name, body_toks, "\0none", "\0none")
        del self.env["\0none"]
        self.env["self_index"] = ("var", "self_index", ("u", 32))
        self.env["N"] = ("var", "N", ("u", 64))
        self.loads = {}          # local name -> lean text of the index it was loaded from

    def is_self(self, e, field):
        return e == ("field", ("id", "self"), field)

    def is_load(self, e):
        while e[0] == "cast" and e[2] == ["u64"]:
            e = e[1]
        return e if (e[0] == "index" and self.is_self(e[1], "random")) else None

    def targets(self, stmts, acc):
        def has_ev(e):
            return isinstance(e, tuple) and ((e[0] == "call" and e[1] == "getentropy")
                                             or any(has_ev(y) for x in e[1:] if isinstance(x, (tuple, list)) for y in (x if isinstance(x, list) else [x])))

        def walk(ss):
            for s in ss:
                if s[0] == "assign":
                    if self.is_self(s[1], "index"):
                        if "log" not in acc:
                            acc.append("log")
                    else:
                        n = self.base_name(s[1])
                        if n not in acc:
                            acc.append(n)
                if s[0] == "expr" and has_ev(s[1]) and "log" not in acc:
                    acc.append("log")
                if s[0] == "let" and self.is_load(s[2]) is not None and "log" not in acc:
                    acc.append("log")
                if s[0] == "if":
                    walk(s[2][1])
                    if s[3]:
                        walk(s[3][1])
                if s[0] in ("while", "loop", "for"):
                    raise TranslateError("a loop in %s" % self.name)
        walk(stmts)
        if "log" in acc:
            acc.remove("log")
            acc.append("log")
        return acc

    def state_types(self, names):
        return [{"log": "List SysEv"}.get(self.env[n][2][0]) or lean_ty(self.env[n][2]) for n in names]

    def typed(self, e):
        if self.is_self(e, "index"):
            return ("u", 32)
        return EffFn.typed(self, e)

    def expr(self, e, expect=None):
        if self.is_self(e, "index"):
            return "self_index", ("u", 32)
        if e[0] == "unary" and e[1] == "!" and e[2] == ("num", 0) and expect and expect[0] == "u":
            return "%d#%d" % ((1 << expect[1]) - 1, expect[1]), expect
        if e[0] == "not" and e[1] == ("num", 0) and expect and expect[0] == "u":
            return "%d#%d" % ((1 << expect[1]) - 1, expect[1]), expect
        return EffFn.expr(self, e, expect)

    def run(self, stmts):
        for s in stmts:
            if s[0] == "assign" and self.is_self(s[1], "index"):
                t, _ = self.expr(s[2], ("u", 32))
                self.lines.append("let log := log ++ [SysEv.setIndex %s]" % t)
            elif s[0] == "expr" and s[1][0] == "call" and s[1][1] == "getentropy" and len(s[1][2]) == 1 and s[1][2][0] in (("ref", True, ("field", ("id", "self"), "random")), ("ref", "mut", ("field", ("id", "self"), "random"))):
                self.lines.append("let log := log ++ [SysEv.fetch]")
            elif s[0] == "let" and s[1][0] == "pid" and self.is_load(s[2]) is not None:
                ld = self.is_load(s[2])
                t, _ = self.expr(ld[2], ("u", 64))
                self.loads[s[1][1]] = t
                self.lines.append("let log := log ++ [SysEv.load %s]" % t)
            else:
                EffFn.run(self, [s])

    def lean(self, width):
        self.lines, self.result, self.aux = [], self.tail, []
        self.env["log"] = ("var", "log", ("log",))
        self.lines.append("let log : List SysEv := []")
        self.run(self.stmts)
        r = self.result
        if r is None:
            raise TranslateError("%s: no result" % self.name)
        if width == 32:
            if not (r[0] == "id" and r[1] in self.loads):
                raise TranslateError("%s: the result is not the loaded word" % self.name)
            words = [self.loads[r[1]]]
        else:
            # high << 32 | low
            ok = r[0] == "bin" and r[1] == "|"
            hi = lo = None
            if ok:
                for x, y in ((r[2], r[3]), (r[3], r[2])):
                    if x[0] == "bin" and x[1] == "<<" and x[3] == ("num", 32) and x[2][0] == "id" and x[2][1] in self.loads and y[0] == "id" and y[1] in self.loads:
                        hi, lo = x[2][1], y[1]
            if hi is None:
                raise TranslateError("%s: the result is not `high << 32 | low` of two loaded words" % self.name)
            words = [self.loads[lo], self.loads[hi]]
        # the loads happen after the last event (the statements between them and the end only assign the index)
        body = "\n".join("  " + l for l in self.lines + ["(log, [%s])" % ", ".join(words)])
        return "def %s (self_index : BitVec 32) (N : BitVec 64) : List SysEv × List (BitVec 64) :=\n%s\n" % (self.name, body)


def system_methods(repo):
    raw, _ = parse_fns(open(os.path.join(repo, "src/rng/system.rs")).read())
    helpers = {n: v for n, v in raw.items() if n not in ("next_u32", "next_u64", "fill_bytes", "jump", "new")}
    if helpers:
        raise TranslateError("src/rng/system.rs: helper functions %s (not inlined by this translator)" % sorted(helpers))
    out = ["namespace system"]
    for m, w in (("next_u32", 32), ("next_u64", 64)):
        cands = [f for f in raw.get(m, []) if f[0] and f[0][0][0] == "self"]
        if len(cands) != 1:
            raise TranslateError("src/rng/system.rs: %s not found (or not unique)" % m)
        out.append(SysFn(m, cands[0][2]).lean(w))
    out.append("end system\n")
    return "\n".join(out)


# ------------------------------------------------------------------------------------------------ Random::shuffle (src/random.rs)
class ShufFn(EffFn):
    """`Random::shuffle`: `self.index(n)` is a draw from an abstract generator (`index : σ → BitVec 64 → BitVec 64 × σ`), `slice.len()` the
    parameter `slice_len`, `slice.swap(a, b)` the log entry `(a, b)`; result: (swaps in program order, generator afterwards, diverged)."""
    WPARAMS = "{σ : Type} (index : σ → BitVec 64 → BitVec 64 × σ)"
    WARGS = "index"
    LOGTY = "List (BitVec 64 × BitVec 64)"

    def __init__(self, name, body_toks):
        EffFn.__init__(self, "Urandom.Generated.Effect.random", name, body_toks, "self", "slice")

    def is_store(self, e):
        return e[0] == "mcall" and e[1] == ("id", "slice") and e[2] == "swap"

    def typed(self, e):
        if e[0] == "mcall" and e[1] == ("id", "slice") and e[2] == "len":
            return ("u", 64)
        if e[0] == "mcall" and e[1] == ("id", "self"):
            return ("u", 64)
        return EffFn.typed(self, e)

    def expr(self, e, expect=None):
        if e[0] == "mcall" and e[1] == ("id", "slice") and e[2] == "len" and not e[3]:
            return "slice_len", ("u", 64)
        if e[0] == "mcall" and e[1] == ("id", "self"):
            if e[2] != "index" or len(e[3]) != 1:
                raise TranslateError("generator method %s" % e[2])
            a, _ = self.expr(e[3][0], ("u", 64))
            self.tmp = getattr(self, "tmp", 0) + 1
            r = "d%d" % self.tmp
            self.lines.append("let (%s, rng) := index rng %s" % (r, a))
            return r, ("u", 64)
        return EffFn.expr(self, e, expect)

    def run(self, stmts):
        for s in stmts:
            if s[0] == "expr" and self.is_store(s[1]) and len(s[1][3]) == 2:
                a, _ = self.expr(s[1][3][0], ("u", 64))
                b, _ = self.expr(s[1][3][1], ("u", 64))
                self.lines.append("let log := log ++ [(%s, %s)]" % (a, b))
            else:
                EffFn.run(self, [s])

    def lean(self):
        self.lines, self.result, self.aux = [], self.tail, []
        self.lines.append("let log : %s := []" % self.LOGTY)
        self.lines.append("let diverged := false")
        self.run(self.stmts)
        if self.result is not None:
            raise TranslateError("a result value")
        body = "\n".join("  " + l for l in self.lines + ["(log, rng, diverged)"])
        return "".join(a + "\n" for a in self.aux) + (
            "def %s {σ : Type} (index : σ → BitVec 64 → BitVec 64 × σ) (rng : σ) (slice_len : BitVec 64) : %s × σ × Bool :=\n%s\n" % (self.name, self.LOGTY, body))


def rewrite_ranges(toks):
    """`f(A..B)` -> `f(A, B)` for a call whose only argument is a half-open range (the expression parser has no range syntax)"""
    out, i = [], 0
    while i < len(toks):
        t = toks[i]
        if t == ("op", "(") and out and out[-1][0] == "id":
            j = matching(toks, i)
            inner = toks[i + 1:j]
            depth, cut = 0, None
            for k, x in enumerate(inner):
                if x[0] == "op" and x[1] in ("(", "[", "{"):
                    depth += 1
                elif x[0] == "op" and x[1] in (")", "]", "}"):
                    depth -= 1
                elif depth == 0 and x == ("op", ".."):
                    cut = k
            if cut is not None and 0 < cut < len(inner) - 1:
                out += [("op", "(")] + rewrite_ranges(inner[:cut]) + [("op", ",")] + rewrite_ranges(inner[cut + 1:]) + [("op", ")")]
                i = j + 1
                continue
        out.append(t)
        i += 1
    return out


class PShufFn(ShufFn):
    """`Random::partial_shuffle`: + the parameter `n` (a `mut` usize), `usize::min`, `self.range(a..b)` as a draw from the abstract generator
    (`range : σ → BitVec 64 → BitVec 64 → BitVec 64 × σ`), and `for i in 0..n` over usize as a fold over `List.range' 0 n.toNat` with the loop
    variable `BitVec.ofNat 64 i` (the body is a definition of its own)."""
    WPARAMS = "{σ : Type} (range : σ → BitVec 64 → BitVec 64 → BitVec 64 × σ)"
    WARGS = "range"

    def __init__(self, name, body_toks):
        ShufFn.__init__(self, name, rewrite_ranges(body_toks))
        self.env["n"] = ("var", "n", ("u", 64))
        self.nfor = 0

    def typed(self, e):
        if e[0] == "call" and e[1] in ("usize::min", "usize::max"):
            return ("u", 64)
        return ShufFn.typed(self, e)

    def expr(self, e, expect=None):
        if e[0] == "call" and e[1] in ("usize::min", "usize::max") and len(e[2]) == 2:
            a, _ = self.expr(e[2][0], ("u", 64))
            b, _ = self.expr(e[2][1], ("u", 64))
            return "(if %s %s %s then %s else %s)" % (a, "≤" if e[1].endswith("min") else "≥", b, a, b), ("u", 64)
        if e[0] == "mcall" and e[1] == ("id", "self"):
            if e[2] != "range" or len(e[3]) != 2:
                raise TranslateError("generator method %s" % e[2])
            a, _ = self.expr(e[3][0], ("u", 64))
            b, _ = self.expr(e[3][1], ("u", 64))
            self.tmp = getattr(self, "tmp", 0) + 1
            r = "d%d" % self.tmp
            self.lines.append("let (%s, rng) := range rng %s %s" % (r, a, b))
            return r, ("u", 64)
        return ShufFn.expr(self, e, expect)

    def targets(self, stmts, acc):
        # a `for` changes what its body changes
        def unfor(ss):
            out = []
            for s in ss:
                if s[0] == "for":
                    out += unfor(s[4][1])
                elif s[0] == "if":
                    out.append(("if", s[1], ("block", unfor(s[2][1]), s[2][2] if len(s[2]) > 2 else None), ("block", unfor(s[3][1]), None) if s[3] else None))
                else:
                    out.append(s)
            return out
        return ShufFn.targets(self, unfor(stmts), acc)

    def run(self, stmts):
        for s in stmts:
            if s[0] == "for":
                var, lo, hi, body = s[1], s[2], s[3], s[4]
                if lo != ("num", 0):
                    raise TranslateError("for loop not from 0")
                names = [n for n in self.targets([s], []) if n in self.env]
                st, tys = self.state_names(names), self.state_types(names)
                tup = "(%s)" % ", ".join(st)
                h, _ = self.expr(hi, ("u", 64))
                saved_env, saved_lines = dict(self.env), self.lines
                self.env[var] = ("var", var, ("u", 64))
                self.lines = []
                self.run(body[1])
                inner = self.lines
                self.lines, self.env = saved_lines, saved_env
                text = "\n".join(inner)
                free = [(v[1], lean_ty(v[2])) for nme, v in saved_env.items()
                        if v[0] == "var" and v[2][0] == "u" and v[1] not in st and re.search(r"\b%s\b" % re.escape(v[1]), text)]
                if re.search(r"\bslice_len\b", text):
                    free.append(("slice_len", "BitVec 64"))
                self.nfor += 1
                bname = "%s_for%d" % (self.name, self.nfor)
                self.aux.append("def %s %s %s (st : %s) (%s_nat : Nat) : %s :=\n  let %s := st\n  let %s := BitVec.ofNat 64 %s_nat\n%s\n  %s\n" % (
                    bname, self.WPARAMS, " ".join("(%s : %s)" % f for f in free), " × ".join(tys), var, " × ".join(tys), tup, var, var,
                    "\n".join("  " + l for l in inner), tup))
                self.lines.append("let %s := (List.range' 0 (%s).toNat).foldl (%s %s %s) %s" % (tup, h, bname, self.WARGS, " ".join(f[0] for f in free), tup))
            else:
                ShufFn.run(self, [s])

    def lean(self):
        self.lines, self.result, self.aux = [], self.tail, []
        self.lines.append("let log : %s := []" % self.LOGTY)
        self.run(self.stmts)
        if self.result is not None:
            raise TranslateError("a result value")
        body = "\n".join("  " + l for l in self.lines + ["(log, rng)"])
        return "".join(a + "\n" for a in self.aux) + (
            "def %s %s (rng : σ) (slice_len : BitVec 64) (n : BitVec 64) : %s × σ :=\n%s\n" % (self.name, self.WPARAMS, self.LOGTY, body))


def random_partial_shuffle(repo):
    raw, _ = parse_fns(open(os.path.join(repo, "src/random.rs")).read())
    cands = [f for f in raw.get("partial_shuffle", []) if f[0] and f[0][0][0] == "self"]
    if len(cands) != 1:
        raise TranslateError("src/random.rs: partial_shuffle not found (or not unique)")
    params, ret, body = cands[0]
    if [p[0] for p in params] != ["self", "slice", "n"] or ret is not None:
        raise TranslateError("partial_shuffle: signature %r" % ([p[0] for p in params],))
    return "namespace random\n" + PShufFn("partial_shuffle", body).lean() + "end random\n"


def random_shuffle(repo):
    raw, _ = parse_fns(open(os.path.join(repo, "src/random.rs")).read())
    cands = [f for f in raw.get("shuffle", []) if f[0] and f[0][0][0] == "self"]
    if len(cands) != 1:
        raise TranslateError("src/random.rs: shuffle not found (or not unique)")
    params, ret, body = cands[0]
    if [p[0] for p in params] != ["self", "slice"] or ret is not None:
        raise TranslateError("shuffle: signature %r" % ([p[0] for p in params],))
    return "namespace random\n" + ShufFn("shuffle", body).lean() + "end random\n"


def generate_system(repo, out_dir, write):
    head = ("/- GENERATED by tools/extract_effect.py from src/rng/system.rs (next_u32, next_u64) on every run - do not edit. -/\n"
            "import Urandom.Model.Effect\nset_option linter.unusedVariables false\nnamespace Urandom.Generated.Effect\nopen Urandom\n\n")
    try:
        text = head + system_methods(repo) + "\nend Urandom.Generated.Effect\n"
    except Exception as e:
        msg = ("%s: %s" % (type(e).__name__, e)).replace("-/", "- /")
        text = ("/- tools/extract_effect.py could not translate the current source: %s -/\n"
                "namespace Urandom.Generated.Effect\ndef translation_failed_EffectSystem : Nat := translation_of_the_current_source_failed\nend Urandom.Generated.Effect\n" % msg)
    write(os.path.join(out_dir, "EffectSystem.lean"), text)


class MulFn(ShufFn):
    """the closure of `Random::multiple`: one item.  `buf[e] = elem` is the event `MulEv.store e i` (an indexing store: out of bounds panics),
    `if let Some(slot) = buf.get_mut(e) { *slot = elem; }` the event `MulEv.storeIf e i` (nothing happens out of bounds); `i` is the item's
    position, `amount` = `buf.len()`, `len` the running count."""
    LOGTY = "List MulEv"

    def __init__(self, name, body_toks):
        ShufFn.__init__(self, name, body_toks)
        for n in ("len", "amount", "i"):
            self.env[n] = ("var", n, ("u", 64))

    def is_store(self, e):
        return e[0] == "call" and e[1] in ("__store", "__store_if")

    def run(self, stmts):
        for s in stmts:
            if s[0] == "expr" and self.is_store(s[1]) and len(s[1][2]) == 1:
                a, _ = self.expr(s[1][2][0], ("u", 64))
                self.lines.append("let log := log ++ [MulEv.%s %s i]" % ("store" if s[1][1] == "__store" else "storeIf", a))
            else:
                EffFn.run(self, [s])


def random_multiple(repo):
    raw, _ = parse_fns(open(os.path.join(repo, "src/random.rs")).read())
    cands = [f for f in raw.get("multiple", []) if f[0] and f[0][0][0] == "self"]
    if len(cands) != 1:
        raise TranslateError("src/random.rs: multiple not found (or not unique)")
    params, ret, toks = cands[0]
    if [p[0] for p in params] != ["self", "collection", "buf"]:
        raise TranslateError("multiple: signature %r" % ([p[0] for p in params],))
    T = lambda txt: retok(tokenize(txt))
    pre = T("let amount = buf.len(); let mut len = 0; collection.into_iter().enumerate().for_each(|(i, elem)| {")
    post = T("}); len")
    if toks[:len(pre)] != pre or toks[-len(post):] != post:
        raise TranslateError("multiple: the body is not `let amount = buf.len(); let mut len = 0; collection.into_iter().enumerate().for_each(|(i, elem)| { .. }); len`")
    body = toks[len(pre):-len(post)]
    # the two kinds of store
    st1, st2a, st2b = T("buf["), T("] = elem;"), None
    out, i = [], 0
    gm = T("if let Some(slot) = buf.get_mut(")
    gm_end = T(") { *slot = elem; }")
    while i < len(body):
        if body[i:i + len(gm)] == gm:
            j = matching(body, i + len(gm) - 1)
            if body[j:j + len(gm_end)] != gm_end:
                raise TranslateError("multiple: `if let Some(slot) = buf.get_mut(..)` with another body")
            out += [("id", "__store_if"), ("op", "(")] + body[i + len(gm):j] + [("op", ")"), ("op", ";")]
            i = j + len(gm_end)
        elif body[i:i + len(st1)] == st1:
            j = matching(body, i + 1)
            if body[j:j + len(st2a)] != st2a:
                raise TranslateError("multiple: a store of something else than the item")
            out += [("id", "__store"), ("op", "(")] + body[i + 2:j] + [("op", ")"), ("op", ";")]
            i = j + len(st2a)
        else:
            out.append(body[i])
            i += 1
    if any(t in (("id", "buf"), ("id", "elem"), ("id", "slot")) for t in out):
        raise TranslateError("multiple: another use of buf / elem")
    fn = MulFn("multiple_item", out)
    fn.lines, fn.result, fn.aux = [], fn.tail, []
    fn.run(fn.stmts)
    if fn.result is not None or fn.aux:
        raise TranslateError("multiple: closure with a value / a loop")
    item = ("def multiple_item {σ : Type} (index : σ → BitVec 64 → BitVec 64 × σ) (amount : BitVec 64) (st : BitVec 64 × σ × List MulEv) (i_nat : Nat) : BitVec 64 × σ × List MulEv :=\n"
            "  let (len, rng, log) := st\n  let i := BitVec.ofNat 64 i_nat\n%s\n  (len, rng, log)\n" % "\n".join("  " + l for l in fn.lines))
    whole = ("def multiple {σ : Type} (index : σ → BitVec 64 → BitVec 64 × σ) (rng : σ) (buf_len : BitVec 64) (items : Nat) : BitVec 64 × σ × List MulEv :=\n"
             "  let amount := buf_len\n  let len := 0#64\n  (List.range' 0 items).foldl (multiple_item index amount) (len, rng, [])\n")
    return "namespace random\n" + item + "\n" + whole + "end random\n"


def random_index(repo):
    """`Random::index(len)`: the body must be `distr::UniformInt::constant(<base>, <range>).sample(self)`; the two arguments become
    `index_args len = (base, range)` (the sampler itself is translated by extract_scalar.py: `sample_*_usize`)."""
    raw, _ = parse_fns(open(os.path.join(repo, "src/random.rs")).read())
    cands = [f for f in raw.get("index", []) if f[0] and f[0][0][0] == "self"]
    if len(cands) != 1:
        raise TranslateError("src/random.rs: index not found (or not unique)")
    params, ret, body = cands[0]
    if [p[0] for p in params] != ["self", "len"]:
        raise TranslateError("index: signature %r" % ([p[0] for p in params],))
    stmts, tail = EP(body).body()
    if stmts or not tail:
        raise TranslateError("index: the body is not one expression")
    if not (tail[0] == "mcall" and tail[2] == "sample" and tail[3] == [("id", "self")] and tail[1][0] == "call"
            and tail[1][1].endswith("UniformInt::constant") and len(tail[1][2]) == 2):
        raise TranslateError("index: the body is not UniformInt::constant(a, b).sample(self)")
    fn = EffFn("Urandom.Generated.Effect.random", "index_args", [], "\0none", "\0none")
    fn.env = {"len": ("var", "len", ("u", 64))}
    fn.lines = []
    a, _ = fn.expr(tail[1][2][0], ("u", 64))
    b, _ = fn.expr(tail[1][2][1], ("u", 64))
    if fn.lines:
        raise TranslateError("index: arguments with effects")
    return "namespace random\ndef index_args (len : BitVec 64) : BitVec 64 × BitVec 64 := (%s, %s)\nend random\n" % (a, b)


def generate_shuffle(repo, out_dir, write):
    """two files: shuffle / partial_shuffle / index (C05T) and multiple (C07T), so that a change one translation cannot read breaks its own
    obligations only"""
    for fname, what, fn in (("EffectShuffle", "shuffle, partial_shuffle, index", lambda r: random_shuffle(r) + "\n" + random_partial_shuffle(r) + "\n" + random_index(r)),
                            ("EffectMultiple", "multiple", random_multiple)):
        head = ("/- GENERATED by tools/extract_effect.py from src/random.rs (%s) on every run - do not edit. -/\n"
                "import Urandom.Model.Effect\nset_option linter.unusedVariables false\nnamespace Urandom.Generated.Effect\nopen Urandom\n\n" % what)
        try:
            text = head + fn(repo) + "\nend Urandom.Generated.Effect\n"
        except Exception as e:
            msg = ("%s: %s" % (type(e).__name__, e)).replace("-/", "- /")
            text = ("/- tools/extract_effect.py could not translate the current source: %s -/\n"
                    "namespace Urandom.Generated.Effect\ndef translation_failed_%s : Nat := translation_of_the_current_source_failed\nend Urandom.Generated.Effect\n" % (msg, fname))
        write(os.path.join(out_dir, fname + ".lean"), text)


def generate_block_fill(repo, out_dir, write):
    head = ("/- GENERATED by tools/extract_effect.py from src/rng/block.rs (fill_bytes) on every run - do not edit. -/\n"
            "import Urandom.Model.Effect\nset_option linter.unusedVariables false\nnamespace Urandom.Generated.Effect\nopen Urandom\n\n")
    try:
        text = head + block_fill(repo) + "\nend Urandom.Generated.Effect\n"
    except Exception as e:
        msg = ("%s: %s" % (type(e).__name__, e)).replace("-/", "- /")
        text = ("/- tools/extract_effect.py could not translate the current source: %s -/\n"
                "namespace Urandom.Generated.Effect\ndef translation_failed_EffectBlockFill : Nat := translation_of_the_current_source_failed\nend Urandom.Generated.Effect\n" % msg)
    write(os.path.join(out_dir, "EffectBlockFill.lean"), text)


if __name__ == "__main__":
    print(block_fill(os.environ.get("VERIF_REPO", "/repo")))
    print(system_methods(os.environ.get("VERIF_REPO", "/repo")))
    print(random_shuffle(os.environ.get("VERIF_REPO", "/repo")))
    print(random_partial_shuffle(os.environ.get("VERIF_REPO", "/repo")))
