"""property -> (technique, level text, level note, design ref).  Edited by hand; MANIFEST.json is generated from it."""
TB = ("Trusted: Lean 4.33 kernel; axioms propext/Quot.sound/Classical.choice only (audited on every run); the hand-written model equals the code "
      "only as far as the differential correspondence samples it (not proved); harness/ and check.py; rustc/std semantics; 64-bit little-endian only. ")
CORR = " The model is tied to /repo on every run by executing the real crate (Rust harness) and the compiled Lean model on the same generated requests and diffing the outputs."

CLAIMED = {
 "C01": ("Lean 4 proof: history refinement of the model to the published algorithms (induction over op lists) + differential correspondence model/impl",
         "Machine-checked proof (Lean 4 kernel) that the model of the three word generators equals the published reference algorithms under the declarative stream semantics for every seed/state and every finite history (run_eq, fillBytes closed form, jump = 2^40 steps for the Weyl generators)." + CORR + " A disagreement is a concrete input on which the implementation differs from the published algorithm.",
         TB + "Spec/Published.lean is a faithful transcription of the reference C (anchored by known-answer vectors).",
         "DESIGN.md 4 (C01)"),
 "C04": ("Lean 4 proof: Lemire interval lemma + loop characterisation (history-independent zone) + wrapping-arithmetic range lemmas, for all 12 instantiations; differential correspondence on threshold words",
         "Machine-checked proof over a generic model (value bits, word bits, signedness): constructors fail iff the range is empty; every sample lies in the range (signed/unsigned, full-type case included); for every value of the range the accepted words are exactly floor(2^L/r) consecutive words (exact uniformity), independent of the loop's history; fewer than half of the words are rejected; index and Dice are such ranges." + CORR + " Words are placed at the acceptance thresholds computed from the theorem.",
         TB + "Uniformity is a theorem about the model; on the implementation it is observed through agreement on threshold words, in-range and error-iff-empty oracles.",
         "DESIGN.md 4 (C04)"),
 "C05": ("Lean 4 proof: Fisher-Yates bijectivity (injectivity + counting n!) and partial-shuffle injectivity + descending-factorial count; permutation by Array.swap_perm; correspondence + exhaustive draw-space enumeration on the implementation",
         "Machine-checked proof: the word-driven loops equal explicit-draws loops on valid index draws; results are permutations (nothing lost/duplicated, length kept) for every slice and word sequence; on duplicate-free slices every order arises from exactly one draw tuple (n! tuples), and for partial_shuffle distinct draw tuples give distinct ordered prefixes with len!/(len-n)! tuples; n is clamped, len<=1 and n=0 are no-ops." + CORR + " The draw space of the implementation is enumerated completely for n<=4 (5 thorough).",
         TB + "Elements are integers (the algorithms are generic and never inspect elements). The composition with C04 (each index value from equally many words) is stated, not re-proved as one product formula.",
         "DESIGN.md 4 (C05)"),
 "C06": ("Lean 4 proof: index < len from the C04 range theorem, choose/single None-iff-empty and membership, index uniformity by the Lemire interval; correspondence + enumeration",
         "Machine-checked proof: index(len) < len for len >= 1 and every word sequence; index(0) is the raw word; each position comes from floor(2^64/len) consecutive words; choose/choose_mut return None exactly for the empty slice and otherwise a member; single with an exact size hint likewise." + CORR,
         TB + "The reservoir path of single (unknown size, floating-point chance(1/denom)) is covered by the correspondence and membership/None oracles; its 2^-50 probability bound is not yet a theorem (partial).",
         "DESIGN.md 4 (C06)"),
 "C07": ("Lean 4 proof: Algorithm R exact counting by induction on the number of items (every k-subset from exactly (n-k)! draw tuples); shape lemmas by induction over the item list; correspondence + exhaustive draw-space enumeration on the implementation",
         "Machine-checked proof: multiple returns min(k,n), keeps the buffer length, leaves slots beyond the count untouched; its run is Algorithm R on valid index draws (link theorem from the word-driven model to the counting model); filled slots hold pairwise distinct positions; every k-subset arises from exactly (n-k)! draw tuples, hence inclusion probability k/n. The pinned tree violated this (D1, fixed): the check's enumeration found 40:20 for n=2,k=1." + CORR,
         TB + "Items are identified with their positions; N (iterated sum over the draw space) is the definition of 'number of draw outcomes'.",
         "DESIGN.md 4 (C07), 5 (D1)"),
 "C11": ("Lean 4 proof: bit-level closed forms (BitVec/Nat), preimage intervals by shr_preimage, leading-zero classes by Nat.log2; IEEE decoding of the patterns; correspondence over all 65 leading-zero classes",
         "Machine-checked proof: next_f32/next_f64 have exponent field 127/1023 (value in [1,2)) and each grid value is hit by exactly 2^9/2^12 consecutive words; every generator's float methods are these functions of one of its words; Float01 has exponent field 1022-k in [958,1022] for k leading zeros (strictly inside (0,1) for all word pairs incl. 0 and !0), class k is exactly [2^(63-k),2^(64-k)), the mantissa is the full top 52 (23) bits of the second draw." + CORR,
         TB + "IEEE.decode is my executable IEEE-754 model (validated against hardware, not proved).",
         "DESIGN.md 4 (C11)"),
 "C13": ("Lean 4 proof: truncation preimage lemma, char bijection onto Unicode scalars via the C04 range theorem, NonZero loop by induction over the words, tuple/array sequencing lemmas, Alnum table by decide; correspondence in debug and release builds",
         "Machine-checked proof: narrow integers are truncations with 2^(32-b) preimages each, 64-bit ones the identity, 128-bit ones a bijection on word pairs (low first), bool the top bit; char samples are always Unicode scalar values and charOf is a bijection from the uniform range onto them (so from_u32_unchecked in release is sound, debug and release agree); NonZero samples are never zero; tuples/arrays consume consecutive draws left to right; Alnum yields only the 62 distinct table characters." + CORR,
         TB + "Compound shapes exercised are a fixed menu of Rust types (tuples up to 12, arrays, Random::fill).",
         "DESIGN.md 4 (C13)"),
}
