#!/bin/bash
# usage: confirm_mutant.sh <agent worktree> <seeded id>
# Confirms a property-breaking change independently: in a FRESH scratch worktree of /repo's HEAD the pinned test
# suite passes with the patch, the demonstration fails with it and passes without it.  Then files it under /verif/seeded/<id>/.
set -u
SRC=$1; ID=$2
W=/tmp/confirm-$ID
rm -rf $W; git -C /repo worktree prune; git -C /repo worktree add -q --detach $W HEAD || exit 1
cd $W
cp $SRC/demo/demo.rs tests_demo.rs 2>/dev/null
mkdir -p tests; cp $SRC/demo/*.rs tests/ 2>/dev/null
FEATS=""; grep -q "serde" $SRC/demo/README.md 2>/dev/null && FEATS="--features serde"
# demonstrations that need another build say so in their README (release-only changes, the no-getrandom back end)
grep -q -- "--no-default-features" $SRC/demo/README.md 2>/dev/null && FEATS="--no-default-features --features std"
grep -q -- "--release" $SRC/demo/README.md 2>/dev/null && FEATS="$FEATS --release"
FEATS="$FEATS ${DEMO_FLAGS:-}"
echo "== demo flags: $FEATS"
echo "== demo WITHOUT the change"; cargo test --offline $FEATS --test demo 2>&1 | grep -E "^test result|error(\[|:)" | head -3
git apply $SRC/patch.diff || { echo "PATCH DOES NOT APPLY"; exit 1; }
# two pinned tests (rng::xoshiro256::fill_bytes, rng::chacha::tests::test_fill_bytes) seed from OS entropy and fail ~3% of runs each on the UNCHANGED tree
# ("too many zeroes"); a failure that consists only of those is re-run
echo "== pinned suite WITH the change"
for try in 1 2 3; do
  OUT=$(cargo test --workspace --no-fail-fast --offline --lib 2>&1)
  echo "$OUT" | grep -E "^test result" | head -2
  FAILS=$(echo "$OUT" | grep -E "^test .* FAILED" | grep -v -E "rng::xoshiro256::fill_bytes|rng::chacha::tests::test_fill_bytes")
  if echo "$OUT" | grep -q "^test result: ok"; then break; fi
  if [ -n "$FAILS" ]; then echo "$FAILS"; break; fi
  echo "   (only the entropy-seeded 'too many zeroes' tests failed: $(echo "$OUT" | grep -E "^test .* FAILED" | tr '\n' ' ') - flaky on the unchanged tree too; re-running)"
done
echo "== demo WITH the change"; cargo test --offline $FEATS --test demo 2>&1 | grep -E "^test result|error(\[|:)" | head -3
cd /; git -C /repo worktree remove --force $W
mkdir -p /verif/seeded/$ID; cp $SRC/patch.diff /verif/seeded/$ID/; cp -r $SRC/demo /verif/seeded/$ID/ 2>/dev/null; cp $SRC/meta.json /verif/seeded/$ID/meta.agent.json 2>/dev/null
echo "filed under /verif/seeded/$ID"
