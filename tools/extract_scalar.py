#!/usr/bin/env python3
"""Translator for the scalar cores of the word generators: the private helper functions of
src/rng/{splitmix64,wyrand,xoshiro256}.rs and the float conversions of src/rng/util.rs.

Each function (straight-line integer code, counted `for` loops with an `if` on constants, calls to sibling
helpers, `&mut` scalars / `&mut [u64; 4]` state) is translated into a Lean DEFINITION over `BitVec`
(Urandom/Generated/Scalar.lean): `&mut` parameters become extra results, assignments become shadowing `let`s, a
`for` becomes a fold over `List.range'` whose state is the tuple of the variables the body assigns, an `if` a
conditional on that tuple.  The hand-written model (Model/Word.lean), which the rest of the framework and the
proofs against the published algorithms are about, is then PROVED equal to these definitions (Props/C01.lean), so
a change of a constant, a shift amount, an operator or the statement order in those functions breaks a proof.

Reuses the tokenizer / expression parser of extract_simd.py.  Unsigned integer types only; arithmetic is the
wrapping arithmetic the code asks for (`wrapping_add`, `wrapping_mul`) - a plain `*` is translated as wrapping as
well, which is exact where it occurs (a 64 x 64 -> 128 bit product)."""
import os, re, sys
sys.path.insert(0, os.path.dirname(os.path.abspath(__file__)))
from extract_simd import TranslateError, tokenize, matching, split_top, P as BaseP, OPEN

WIDTH = {"u8": 8, "u16": 16, "u32": 32, "u64": 64, "u128": 128, "f32": 32, "f64": 64}
NATCONST = {"f32::MANTISSA_DIGITS": 24, "f64::MANTISSA_DIGITS": 53, "u32::BITS": 32, "u64::BITS": 64}


def retok(toks):
    """join `!` `=`, `=` `=` and compound-assignment operators that the SIMD tokenizer leaves apart"""
    out, i = [], 0
    while i < len(toks):
        t = toks[i]
        n = toks[i + 1] if i + 1 < len(toks) else None
        if t[0] == "op" and n == ("op", "=") and t[1] in ("!", "=", "<", ">") and not (out and out[-1] == ("op", t[1])):
            out.append(("op", t[1] + "="))
            i += 2
        elif t[0] == "op" and n == ("op", "=") and t[1] in ("^", "|", "&", "+", "-", "*", "<<", ">>") and (i + 2 < len(toks) and toks[i + 2] != ("op", "=")):
            out.append(("cop", t[1]))
            i += 2
        else:
            out.append(t)
            i += 1
    return out


class P(BaseP):
    LEVELS = [["==", "!=", ">=", "<=", "<", ">"], ["|"], ["^"], ["&"], ["<<", ">>"], ["+", "-"], ["*", "/", "%"]]

    def primary(self):
        # `<T>::f(args)`
        if self.at("<") and self.peek(1)[0] == "id" and self.peek(2) == ("op", ">") and self.peek(3) == ("op", "::"):
            self.eat("op")
            ty = self.eat("id")
            self.eat("op", ">")
            self.eat("op", "::")
            name = ty + "::" + self.eat("id")
            self.eat("op", "(")
            return ("call", name, self.args(")"))
        return BaseP.primary(self)

    def postfix(self, e):
        while True:
            if self.at("["):
                self.eat("op")
                idx = self.expr()
                self.eat("op", "]")
                e = ("index", e, idx)
            elif self.at("."):
                self.eat("op")
                m = self.eat("id")
                if self.at("("):
                    self.eat("op", "(")
                    e = ("mcall", e, m, self.args(")"))
                else:
                    e = ("field", e, m)
            else:
                return e

    def unary(self):
        if self.at("*"):
            self.eat("op")
            return ("deref", self.unary())
        return BaseP.unary(self)

    def block(self):
        self.eat("op", "{")
        j = matching(self.t, self.i - 1)
        inner = P(self.t[self.i:j])
        self.i = j + 1
        return ("block",) + inner.body()

    def body(self):
        stmts, tail = [], None
        while self.peek()[0] != "eof":
            if self.at(";"):
                self.eat("op")
                continue
            s = self.stmt()
            if self.at(";"):
                self.eat("op")
                stmts.append(s)
            elif self.peek()[0] == "eof":
                if s[0] == "expr":
                    tail = s[1]
                else:
                    stmts.append(s)
            elif s[0] in ("for", "if", "loop"):
                stmts.append(s)
            else:
                raise TranslateError("missing `;` after %r" % (s,))
        return stmts, tail

    def stmt(self):
        t = self.peek()
        if t == ("id", "return"):
            self.eat("id")
            return ("return", self.expr())
        if t == ("id", "break"):
            self.eat("id")
            return ("break", self.expr())
        if t == ("id", "loop"):
            self.eat("id")
            return ("loop", self.block())
        if t in (("id", "static"), ("id", "const")):
            self.eat("id")
            name = self.eat("id")
            self.eat("op", ":")
            while not self.at("="):
                if self.peek()[0] == "op" and self.peek()[1] in OPEN:
                    self.i = matching(self.t, self.i) + 1
                else:
                    self.i += 1
            self.eat("op", "=")
            return ("const", name, self.expr())
        if t == ("id", "if"):
            self.eat("id")
            j = self.i
            while self.t[j] != ("op", "{"):
                j += 1
            cond = P(self.t[self.i:j]).expr()
            self.i = j
            then = self.block()
            els = None
            if self.peek() == ("id", "else"):
                self.eat("id")
                els = self.block()
            return ("if", cond, then, els)
        if t == ("id", "for"):
            self.eat("id")
            var = self.eat("id")
            self.eat("id", "in")
            lo = self.expr(5)
            self.eat("op", "..")
            j = self.i
            while self.t[j] != ("op", "{"):
                j += 1
            hi = P(self.t[self.i:j]).expr()
            self.i = j
            return ("for", var, lo, hi, self.block())
        if t == ("id", "let"):
            return BaseP.stmt(self)
        # assignment / compound assignment / expression
        start = self.i
        lhs = self.unary()
        if self.at("="):
            self.eat("op")
            return ("assign", lhs, self.expr())
        if self.peek()[0] == "cop":
            op = self.peek()[1]
            self.i += 1
            return ("assign", lhs, ("bin", op, lhs, self.expr()))
        self.i = start
        return ("expr", self.expr())


def parse_fns(src):
    toks = retok(tokenize(src))
    fns, consts = {}, {}
    i, depth_impl = 0, 0
    while i < len(toks):
        t = toks[i]
        if t == ("id", "const") and toks[i + 2] == ("op", ":") and toks[i + 1][1].isupper() and toks[i + 3][0] == "id" and toks[i + 4] == ("op", "="):
            # `const NAME: uN = expr;` (not the `const N: usize` of generics)
            name = toks[i + 1][1]
            j = i
            while toks[j] != ("op", ";"):
                j += 1
            ty = toks[i + 3][1]
            if ty in WIDTH:
                consts[name] = (P(toks[i + 5:j]).expr(), ty)
            i = j + 1
        elif t == ("id", "fn"):
            name = toks[i + 1][1]
            k = i + 2
            while toks[k] != ("op", "("):
                k += 1
            pe = matching(toks, k)
            params = []
            for ptoks in [p for p in split_top(toks[k + 1:pe], ",") if p]:
                if ptoks[0] == ("op", "&"):          # &self / &mut self
                    params.append(("self", None, True))
                    continue
                pname = ptoks[0][1] if ptoks[0] != ("id", "mut") else ptoks[1][1]
                ci = ptoks.index(("op", ":"))
                ty = ptoks[ci + 1:]
                mut = ty[:2] == [("op", "&"), ("id", "mut")]
                if mut:
                    ty = ty[2:]
                params.append((pname, ty, mut))
            k = pe + 1
            ret = None
            if toks[k] == ("op", "->"):
                r0 = k + 1
                while toks[k] != ("op", "{"):
                    k += 1
                ret = toks[r0:k]
            while toks[k] != ("op", "{"):
                k += 1
            be = matching(toks, k)
            fns.setdefault(name, []).append((params, ret, toks[k + 1:be]))
            i = be + 1
        else:
            i += 1
    return fns, consts


def ty_of(toks):
    """type tokens -> ('u', w) | ('arr', w, n) | ('tuple', [..])"""
    if toks[0][0] == "id" and toks[0][1] in WIDTH:
        return ("u", WIDTH[toks[0][1]])
    if toks[0] == ("op", "["):
        return ("arr", WIDTH[toks[1][1]], toks[3][1])
    if toks[0] == ("op", "("):
        e = matching(toks, 0)
        return ("tuple", [ty_of(p) for p in split_top(toks[1:e], ",") if p])
    raise TranslateError("unsupported type %r" % (toks,))


def lean_ty(t):
    if t[0] == "u":
        return "BitVec %d" % t[1]
    if t[0] == "nat":
        return "Nat"
    if t[0] == "tuple":
        return "(" + " × ".join(lean_ty(x) for x in t[1]) + ")"
    raise TranslateError("no Lean type for %r" % (t,))


class Fn:
    """translation of one function body to Lean `let` lines"""

    def __init__(self, unit, name, params, ret, body_toks):
        self.u, self.name = unit, name
        self.params, self.ret = params, (ty_of(ret) if ret else None)
        self.stmts, self.tail = getattr(self, 'PARSER', P)(body_toks).body()
        self.env = {}            # rust name -> ('var', lean name, type) | ('arr', [lean names], width) | ('carr', [ints], width) | ('nat', lean name)
        self.muts = []           # (rust name) of &mut params, in order
        self.sig = []
        for pname, ty, mut in params:
            t = ty_of(ty)
            if t[0] == "arr":
                names = ["%s_%d" % (pname, i) for i in range(t[2])]
                self.env[pname] = ("arr", names, t[1])
                self.sig += ["(%s : BitVec %d)" % (n, t[1]) for n in names]
            else:
                self.env[pname] = ("var", pname, t)
                self.sig.append("(%s : %s)" % (pname, lean_ty(t)))
            if mut:
                self.muts.append(pname)

    # ---- what a piece of code assigns (rust variable names), in order of first assignment
    def targets(self, stmts, acc):
        for s in stmts:
            if s[0] == "assign":
                n = self.base_name(s[1])
                if n not in acc:
                    acc.append(n)
                self.call_targets(s[2], acc)
            elif s[0] == "let":
                self.call_targets(s[2], acc)
            elif s[0] == "expr":
                self.call_targets(s[1], acc)
            elif s[0] == "for":
                self.targets(s[4][1], acc)
            elif s[0] == "if":
                self.targets(s[2][1], acc)
                if s[3]:
                    self.targets(s[3][1], acc)
        return acc

    def call_targets(self, e, acc):
        if isinstance(e, tuple):
            if e[0] == "call" and e[1] in self.u.fns:
                callee = self.u.fn(e[1])
                for (pname, ty, mut), a in zip(callee.params, e[2]):
                    if mut:
                        n = self.base_name(a)
                        if n not in acc:
                            acc.append(n)
            for x in e[1:]:
                if isinstance(x, (tuple, list)):
                    for y in (x if isinstance(x, list) else [x]):
                        self.call_targets(y, acc)

    def base_name(self, e):
        while e[0] in ("deref", "ref", "index"):
            e = e[1] if e[0] != "ref" else e[2]
        if e[0] != "id":
            raise TranslateError("assignment target %r" % (e,))
        return e[1]

    def state_names(self, names):
        out = []
        for n in names:
            v = self.env[n]
            out += v[1] if v[0] == "arr" else [v[1]]
        return out

    def state_types(self, names):
        out = []
        for n in names:
            v = self.env[n]
            out += ["BitVec %d" % v[2]] * len(v[1]) if v[0] == "arr" else [lean_ty(v[2])]
        return out

    # ---- expressions: returns (lean text, type); hoisted lets go to self.lines
    def typed(self, e):
        k = e[0]
        if k == "num":
            return None
        if k == "id":
            v = self.env.get(e[1]) or self.u.const_env(e[1])
            if v is None:
                return ("nat",) if e[1] in NATCONST else None
            return v[2] if v[0] == "var" else ("nat",) if v[0] == "nat" else None
        if k in ("deref",):
            return self.typed(e[1])
        if k == "ref":
            return self.typed(e[2])
        if k == "cast":
            return ty_of([("id", e[2][0])]) if e[2][0] in WIDTH else None
        if k == "bin":
            if e[1] in ("<<", ">>"):
                return self.typed(e[2])
            if e[1] in ("==", "!="):
                return ("bool",)
            return self.typed(e[2]) or self.typed(e[3])
        if k == "index":
            v = self.env.get(self.base_name(e)) or self.u.const_env(self.base_name(e))
            return ("u", v[2]) if v and v[0] in ("arr", "carr") else None
        if k == "mcall":
            return self.typed(e[1])
        if k == "tuple" or k == "array":
            return None
        if k == "call":
            if e[1] in self.u.fns:
                return self.u.fn(e[1]).ret
            m = re.match(r"(u\d+)::wrapping_", e[1])
            if m:
                return ("u", WIDTH[m.group(1)])
            m = re.match(r"(f32|f64)::from_bits", e[1])
            if m:
                return ("u", WIDTH[m.group(1)])
        return None

    def nat(self, e):
        """an expression used as a shift / rotate amount or an index: Lean Nat text"""
        if e[0] == "num":
            return str(e[1])
        if e[0] == "id" and e[1] in NATCONST:
            return str(NATCONST[e[1]])
        if e[0] == "id" and e[1] in self.env and self.env[e[1]][0] == "nat":
            return self.env[e[1]][1]
        if e[0] == "bin" and e[1] in ("+", "-", "*"):
            return "(%s %s %s)" % (self.nat(e[2]), e[1], self.nat(e[3]))
        t, ty = self.expr(e)
        if ty[0] == "u":
            return "(%s).toNat" % t
        raise TranslateError("not a natural number: %r" % (e,))

    def expr(self, e, expect=None):
        k = e[0]
        if k == "num":
            if expect is None or expect[0] != "u":
                raise TranslateError("cannot type the literal %d" % e[1])
            return "%d#%d" % (e[1], expect[1]), expect
        if k == "id":
            v = self.env.get(e[1])
            if v is None:
                c = self.u.consts.get(e[1])
                if c is not None:
                    return self.expr(c[0], ("u", WIDTH[c[1]]))
                raise TranslateError("unknown name %s in %s" % (e[1], self.name))
            if v[0] == "var":
                return v[1], v[2]
            raise TranslateError("%s used as a value" % e[1])
        if k == "deref":
            return self.expr(e[1], expect)
        if k == "ref":
            return self.expr(e[2], expect)
        if k == "cast":
            t, ty = self.expr(e[1], None if e[1][0] != "num" else ("u", WIDTH[e[2][0]]))
            if e[2][0] not in WIDTH:
                raise TranslateError("cast to %r" % (e[2],))
            w = WIDTH[e[2][0]]
            return ("%s" % t if ty == ("u", w) else "(%s).setWidth %d" % (t, w)), ("u", w)
        if k == "index":
            base = self.base_name(e)
            v = self.env.get(base) or self.u.const_env(base)
            if v is None:
                raise TranslateError("unknown array %s" % base)
            if v[0] == "arr":
                if e[2][0] != "num":
                    raise TranslateError("state array indexed by a variable")
                return v[1][e[2][1]], ("u", v[2])
            if v[0] == "carr":
                if e[2][0] == "num":
                    return "%d#%d" % (v[1][e[2][1]], v[2]), ("u", v[2])
                return "([%s].getD %s 0#%d)" % (", ".join("%d#%d" % (x, v[2]) for x in v[1]), self.nat(e[2]), v[2]), ("u", v[2])
            raise TranslateError("index of %r" % (v,))
        if k == "tuple":
            parts = [self.expr(x) for x in e[1]]
            return "(" + ", ".join(p[0] for p in parts) + ")", ("tuple", [p[1] for p in parts])
        if k == "bin":
            op = e[1]
            if op in ("<<", ">>"):
                ty = self.typed(e[2]) or expect
                l, lt = self.expr(e[2], ty)
                return "(%s %s %s)" % (l, {"<<": "<<<", ">>": ">>>"}[op], self.nat(e[3])), lt
            ty = self.typed(e[2]) or self.typed(e[3]) or expect
            if op in ("==", "!="):
                l, lt = self.expr(e[2], ty)
                r, _ = self.expr(e[3], lt)
                return "(%s %s %s)" % (l, op, r), ("bool",)
            l, lt = self.expr(e[2], ty)
            r, rt = self.expr(e[3], lt)
            if lt != rt:
                raise TranslateError("operands of different types in %r" % (e,))
            return "(%s %s %s)" % (l, {"^": "^^^", "|": "|||", "&": "&&&", "+": "+", "-": "-", "*": "*"}[op], r), lt
        if k == "mcall":
            recv, m, args = e[1], e[2], e[3]
            l, lt = self.expr(recv, expect)
            if m in ("wrapping_add", "wrapping_sub", "wrapping_mul"):
                r, _ = self.expr(args[0], lt)
                return "(%s %s %s)" % (l, {"wrapping_add": "+", "wrapping_sub": "-", "wrapping_mul": "*"}[m], r), lt
            if m == "to_bits":
                return l, lt                          # floats are their bit patterns
            if m in ("rotate_left", "rotate_right"):
                return "((%s).%s %s)" % (l, {"rotate_left": "rotateLeft", "rotate_right": "rotateRight"}[m], self.nat(args[0])), lt
            raise TranslateError("unsupported method %s" % m)
        if k == "call":
            name, args = e[1], e[2]
            m = re.match(r"u(\d+)::(wrapping_add|wrapping_sub|wrapping_mul)$", name)
            if m:
                ty = ("u", int(m.group(1)))
                l, _ = self.expr(args[0], ty)
                r, _ = self.expr(args[1], ty)
                return "(%s %s %s)" % (l, {"wrapping_add": "+", "wrapping_sub": "-", "wrapping_mul": "*"}[m.group(2)], r), ty
            m = re.match(r"(f32|f64)::from_bits$", name)
            if m:
                return self.expr(args[0], ("u", WIDTH[m.group(1)]))      # floats are their bit patterns
            if name in self.u.fns:
                return self.call(name, args)
            raise TranslateError("unknown function %s" % name)
        raise TranslateError("unsupported expression %r" % (e,))

    def call(self, name, args):
        callee = self.u.fn(name)
        actual, rebind = [], []
        for (pname, ty, mut), a in zip(callee.params, args):
            t = ty_of(ty)
            if t[0] == "arr":
                v = self.env[self.base_name(a)]
                actual += v[1]
                if mut:
                    rebind += v[1]
            else:
                txt, _ = self.expr(a, t)
                actual.append(txt if re.match(r"^[\w#]+$", txt) else "(%s)" % txt)
                if mut:
                    rebind.append(self.env[self.base_name(a)][1])
        app = "%s.%s %s" % (self.u.ns, name, " ".join(actual))
        if not rebind:
            return "(%s)" % app, callee.ret
        self.tmp = getattr(self, "tmp", 0) + 1
        if callee.ret is not None:
            r = "r%d" % self.tmp
            self.lines.append("let (%s) := %s" % (", ".join([r] + rebind), app))
            return r, callee.ret
        self.lines.append("let (%s) := %s" % (", ".join(rebind), app))
        return None, None

    # ---- statements
    def run(self, stmts):
        for s in stmts:
            k = s[0]
            if k == "const":
                if s[2][0] != "array":
                    raise TranslateError("local constant %s is not an array" % s[1])
                self.env[s[1]] = ("carr", [x[1] for x in s[2][1]], 64)
            elif k == "let":
                pat, e = s[1], s[2]
                if pat[0] == "pid":
                    if e[0] == "num":
                        # `let mut s0 = 0;`: typed by its later use - the state words are 64 bits
                        self.env[pat[1]] = ("var", pat[1], ("u", 64))
                        self.lines.append("let %s := %d#64" % (pat[1], e[1]))
                        continue
                    t, ty = self.expr(e)
                    self.env[pat[1]] = ("var", pat[1], ty)
                    self.lines.append("let %s := %s" % (pat[1], t))
                elif pat[0] == "ptup":
                    t, ty = self.expr(e)
                    if ty[0] != "tuple" or len(ty[1]) != len(pat[1]):
                        raise TranslateError("tuple pattern %r from %r" % (pat, ty))
                    for n, x in zip(pat[1], ty[1]):
                        self.env[n] = ("var", n, x)
                    self.lines.append("let (%s) := %s" % (", ".join(pat[1]), t))
                else:
                    raise TranslateError("pattern %r" % (pat,))
            elif k == "assign":
                lhs, e = s[1], s[2]
                if lhs[0] == "index":
                    v = self.env[self.base_name(lhs)]
                    tgt, ty = v[1][lhs[2][1]], ("u", v[2])
                else:
                    v = self.env[self.base_name(lhs)]
                    tgt, ty = v[1], v[2]
                t, _ = self.expr(e, ty)
                self.lines.append("let %s := %s" % (tgt, t))
            elif k == "expr":
                t, ty = self.expr(s[1])
                if t is not None:
                    raise TranslateError("expression statement without effect: %r" % (s[1],))
            elif k == "for":
                var, lo, hi, body = s[1], s[2], s[3], s[4]
                names = self.targets(body[1], [])
                st, tys = self.state_names(names), self.state_types(names)
                saved_env, saved_lines = dict(self.env), self.lines
                self.env[var] = ("nat", var)
                self.lines = []
                self.run(body[1])
                inner = self.lines
                self.lines, self.env = saved_lines, saved_env
                tup = "(%s)" % ", ".join(st)
                # the loop body becomes a definition of its own (state tuple -> loop variable -> state tuple), so that proofs can name it;
                # what it reads from outside (enclosing loop variables, earlier immutable locals) becomes a leading parameter
                text = "\n".join(inner)
                free = []
                for n, v in saved_env.items():
                    if v[0] == "nat" and re.search(r"\b%s\b" % re.escape(v[1]), text):
                        free.append(("(%s : Nat)" % v[1], v[1]))
                    elif v[0] == "var" and v[1] not in st and re.search(r"\b%s\b" % re.escape(v[1]), text):
                        free.append(("(%s : %s)" % (v[1], lean_ty(v[2])), v[1]))
                self.nloops = getattr(self, "nloops", 0) + 1
                bname = "%s_loop%d" % (self.name, self.nloops)
                self.aux.append("def %s %s (st : %s) (%s : Nat) : %s :=\n  let %s := st\n%s\n  %s\n" % (
                    bname, " ".join(f[0] for f in free), " × ".join(tys), var, " × ".join(tys), tup, "\n".join("  " + l for l in inner), tup))
                self.lines.append("let %s := (List.range' %s (%s - %s)).foldl (%s.%s %s) %s" % (
                    tup, self.nat(lo), self.nat(hi), self.nat(lo), self.u.ns, bname, " ".join(f[1] for f in free), tup))
            elif k == "if":
                cond, then, els = s[1], s[2], s[3]
                names = self.targets(then[1] + (els[1] if els else []), [])
                st = self.state_names(names)
                tup = "(%s)" % ", ".join(st)
                c, _ = self.expr(cond)
                branches = []
                for blk in (then, els):
                    saved_env, saved_lines = dict(self.env), self.lines
                    self.lines = []
                    if blk:
                        self.run(blk[1])
                    branches.append(self.lines)
                    self.lines, self.env = saved_lines, saved_env
                self.lines.append("let %s := if %s then" % (tup, c))
                for l in branches[0]:
                    self.lines.append("      " + l)
                self.lines.append("      %s" % tup)
                self.lines.append("    else")
                for l in branches[1]:
                    self.lines.append("      " + l)
                self.lines.append("      %s" % tup)
            elif k == "return":
                self.result = s[2] if len(s) > 2 else s[1]
            else:
                raise TranslateError("statement %r" % (s,))

    def lean(self):
        self.lines, self.result, self.aux = [], self.tail, []
        self.run(self.stmts)
        outs = []
        if self.result is not None:
            t, ty = self.expr(self.result, self.ret)
            if t is not None:
                outs.append(t)
        for m in self.muts:
            v = self.env[m]
            outs += v[1] if v[0] == "arr" else [v[1]]
        res = outs[0] if len(outs) == 1 else "(%s)" % ", ".join(outs)
        body = "\n".join("  " + l for l in self.lines + [res])
        return "".join(a + "\n" for a in self.aux) + "def %s %s :=\n%s\n" % (self.name, " ".join(self.sig), body)


class Unit:
    def __init__(self, ns, path, wanted):
        self.ns = ns
        raw, self.consts = parse_fns(open(path).read())
        self.fns = {n: raw[n][-1] for n in wanted if n in raw}      # the private helpers stand after the impl blocks
        missing = [n for n in wanted if n not in raw]
        if missing:
            raise TranslateError("%s: functions %s not found" % (path, missing))
        self.cache = {}
        self.order = wanted

    def fn(self, name):
        if name not in self.cache:
            params, ret, body = self.fns[name]
            self.cache[name] = Fn(self, name, params, ret, body)
        return self.cache[name]

    def const_env(self, name):
        return None

    def lean(self):
        out = ["namespace %s" % self.ns.split(".")[-1]]
        for n in self.order:
            out.append(self.fn(n).lean())
        out.append("end %s\n" % self.ns.split(".")[-1])
        return "\n".join(out)


UNITS = [("Urandom.Generated.Scalar.splitmix", "src/rng/splitmix64.rs", ["mix64", "next", "jump"]),
         ("Urandom.Generated.Scalar.wyrand", "src/rng/wyrand.rs", ["rapid_mum", "rapid_mix", "wyrand", "jump"]),
         ("Urandom.Generated.Scalar.xoshiro", "src/rng/xoshiro256.rs", ["advance", "next_plusplus", "next_plus", "jump"]),
         ("Urandom.Generated.Scalar.util", "src/rng/util.rs", ["rng_f32", "rng_f64"]),
         ("Urandom.Generated.Scalar.float01", "src/distr/float01.rs", ["replace_exponent_f32", "replace_exponent_f64"])]


GROUPS = [("Scalar", ["splitmix", "wyrand", "xoshiro", "util"], "src/rng/{splitmix64,wyrand,xoshiro256,util}.rs"),
          ("ScalarFloat01", ["float01"], "src/distr/float01.rs"),
          ("ScalarUniformInt", ["uniform_int"], "src/distr/uniform/int.rs"),
          ("ScalarChaCha", ["chacha"], "src/rng/chacha.rs"),
          ("ScalarStandard", ["standard"], "src/distr/{standard,alnum}.rs"),
          ("ScalarDice", ["dice"], "src/distr/dice.rs"),
          ("ScalarReadMock", ["readmock"], "src/rng/{read,mock}.rs")]


def float01_samples(repo):
    """`impl Distribution<f32> for Float01` / `<f64>`: `sample`.  Every `rand.next_*()` is a parameter, numbered in evaluation order (statements
    in order, arguments left to right) and listed by method name in `sample_<T>_draws`; `.leading_zeros()` of a 64-bit draw is the parameter
    `lz : BitVec 64 → BitVec 32` (its meaning is given where the theorem is stated); calls to the sibling helpers are the translated helpers."""
    path = os.path.join(repo, "src/distr/float01.rs")
    raw, _ = parse_fns(open(path).read())
    cands = [f for f in raw.get("sample", []) if f[0] and f[0][0][0] == "self"]
    if len(cands) != 2:
        raise TranslateError("float01.rs: expected two `sample` methods (f32, f64), found %d" % len(cands))
    unit = next(Unit(ns, os.path.join(repo, r), wanted) for ns, r, wanted in UNITS if ns.endswith(".float01"))
    out = []
    for params, ret, body in cands:
        if not ret or ret[0][1] not in ("f32", "f64"):
            raise TranslateError("float01.rs: sample returns %r" % (ret,))
        T = ret[0][1]
        draws = []

        class F(Fn):
            def typed(self, e):
                if e[0] == "mcall" and e[2] == "leading_zeros":
                    return ("u", 32)
                if e[0] == "mcall" and e[1] == ("id", "rand"):
                    return ("u", 32 if e[2].endswith("32") else 64)
                return Fn.typed(self, e)

            def expr(self, e, expect=None):
                if e[0] == "mcall" and e[1] == ("id", "rand") and not e[3]:
                    if e[2] not in ("next_u32", "next_u64", "next_f32", "next_f64"):
                        raise TranslateError("draw %s" % e[2])
                    draws.append(e[2])
                    return "d%d" % len(draws), ("u", 32 if e[2].endswith("32") else 64)
                if e[0] == "mcall" and e[2] == "leading_zeros" and not e[3]:
                    a, at = self.expr(e[1])
                    if at != ("u", 64):
                        raise TranslateError("leading_zeros of a %r" % (at,))
                    return "(lz %s)" % a, ("u", 32)
                return Fn.expr(self, e, expect)
        fn = F(unit, "sample_" + T, [], None, body)
        fn.ret = ("u", WIDTH[T])
        fn.lines, fn.result, fn.aux = [], fn.tail, []
        fn.run(fn.stmts)
        if fn.result is None:
            raise TranslateError("float01.rs: sample has no result")
        t, ty = fn.expr(fn.result, fn.ret)
        sig = " ".join("(d%d : BitVec %d)" % (i + 1, 32 if d.endswith("32") else 64) for i, d in enumerate(draws))
        out.append("def sample_%s (lz : BitVec 64 → BitVec 32) %s :=\n%s\n" % (T, sig, "\n".join("  " + l for l in fn.lines + [t])))
        out.append("def sample_%s_draws : List String := [%s]\n" % (T, ", ".join('"%s"' % d for d in draws)))
    return "namespace float01\n" + "\n".join(out) + "end float01\n"


def standard_prims(repo):
    """the invocations `impl_standard_dist! { <ty>, rand => <expr or block> }` of src/distr/standard.rs (those for 32-bit targets left out):
    each becomes `std_<ty> d1 [d2]` over the draws in evaluation order (`std_<ty>_draws` lists their methods).  Casts: to a narrower or equal
    width = truncation, from an unsigned draw to a wider type = zero extension; `(x as iN) < 0` is the signed comparison."""
    path = os.path.join(repo, "src/distr/standard.rs")
    src = open(path).read()
    text = re.sub(r"//[^\n]*", "", src)
    unit = Unit("Urandom.Generated.Scalar.standard", os.path.join(repo, "src/rng/util.rs"), [])
    out = ["namespace standard"]
    seen = []
    for m in re.finditer(r'(#\[cfg\(target_pointer_width\s*=\s*"(\d+)"\)\]\s*)?impl_standard_dist!\s*\{', text):
        depth, j = 1, m.end()
        while depth:
            depth += {"{": 1, "}": -1}.get(text[j], 0)
            j += 1
        if m.group(2) == "32":
            continue
        inner = retok(tokenize(text[m.end():j - 1]))
        if True:
            tname = inner[0][1]
            # <ty> , rand => body
            if inner[1] == ("op", ",") and inner[2] == ("id", "rand") and inner[3] == ("op", "=>"):
                body = inner[4:]
            elif inner[1] == ("op", ",") and inner[2] == ("id", "rand") and inner[3] == ("op", "=") and inner[4] == ("op", ">"):
                body = inner[5:]
            else:
                raise TranslateError("standard.rs: invocation for %s" % tname)
            if body and body[0] == ("op", "{") and matching(body, 0) == len(body) - 1:
                body = body[1:-1]
            draws = []
            rty = ("bool",) if tname == "bool" else ("u", WIDTH[tname]) if tname in WIDTH else ("i", SIGNED[tname]) if tname in SIGNED else ("u", UNSIGNED[tname]) if tname in UNSIGNED else None
            if rty is None:
                raise TranslateError("standard.rs: type %s" % tname)

            class F(LoopFn):
                def __init__(self):
                    self.u, self.name, self.suffix = unit, "std", tname
                    self.params, self.ret = [], rty
                    self.stmts, self.tail = P(body).body()
                    self.env, self.muts, self.sig = {}, [], []

                def typed(self, e):
                    if e[0] == "mcall" and e[1] == ("id", "rand"):
                        return ("u", 32 if e[2].endswith("32") else 64)
                    return LoopFn.typed(self, e)

                def expr(self, e, expect=None):
                    if e[0] == "mcall" and e[1] == ("id", "rand") and not e[3]:
                        if e[2] not in ("next_u32", "next_u64", "next_f32", "next_f64"):
                            raise TranslateError("draw %s" % e[2])
                        draws.append(e[2])
                        return "d%d" % len(draws), ("u", 32 if e[2].endswith("32") else 64)
                    if e[0] == "cast":
                        t, ty = self.expr(e[1], None)
                        to = self.cast_ty(e[2][0])
                        if ty[0] == "i" and to[1] > ty[1]:
                            raise TranslateError("widening cast from a signed type")
                        return (t if to[1] == ty[1] else "((%s).setWidth %d)" % (t, to[1])), to
                    if e[0] == "bin" and e[1] == "<" and e[3] == ("num", 0):
                        l, lt = self.expr(e[2], None)
                        if lt[0] != "i":
                            raise TranslateError("`< 0` on an unsigned value")
                        return "(BitVec.slt %s 0#%d)" % (l, lt[1]), ("bool",)
                    if e[0] == "bin" and e[1] in ("|", "<<"):
                        lt0 = self.typed(e[2]) or expect
                        l, lt = self.expr(e[2], lt0)
                        if e[1] == "<<":
                            return "(%s <<< %s)" % (l, self.nat(e[3])), lt
                        r, rt = self.expr(e[3], lt)
                        if lt[1] != rt[1]:
                            raise TranslateError("operands of different widths")
                        return "(%s ||| %s)" % (l, r), lt
                    return LoopFn.expr(self, e, expect)

                def typed_local(self, n):
                    return self.env[n][2]
            fn = F()
            fn.lines, fn.result, fn.aux = [], fn.tail, []
            for st in fn.stmts:
                if not (st[0] == "let" and st[1][0] == "pid"):
                    raise TranslateError("standard.rs: statement in the invocation for %s" % tname)
                t, ty = fn.expr(st[2], None)
                fn.env[st[1][1]] = ("var", st[1][1], ty)
                fn.lines.append("let %s := %s" % (st[1][1], t))
            if fn.result is None:
                raise TranslateError("standard.rs: no value in the invocation for %s" % tname)
            t, ty = fn.expr(fn.result, rty if rty[0] != "bool" else None)
            if rty[0] == "bool":
                if ty != ("bool",):
                    raise TranslateError("standard.rs: bool from %r" % (ty,))
            elif ty[1] != rty[1]:
                raise TranslateError("standard.rs: %s from a value of %d bits" % (tname, ty[1]))
            sig = " ".join("(d%d : BitVec %d)" % (i + 1, 32 if d.endswith("32") else 64) for i, d in enumerate(draws))
            out.append("def std_%s %s :=\n%s\n" % (tname, sig, "\n".join("  " + l for l in fn.lines + [t])))
            out.append("def std_%s_draws : List String := [%s]\n" % (tname, ", ".join('"%s"' % d for d in draws)))
            seen.append(tname)
    want = ["bool", "i8", "u8", "i16", "u16", "i32", "u32", "i64", "u64", "i128", "u128", "isize", "usize", "f32", "f64"]
    if seen != want:
        raise TranslateError("standard.rs: invocations for %r (expected %r)" % (seen, want))
    out.append("end standard\n")
    return "\n".join(out)


def std_char(repo):
    """`impl Distribution<char> for StandardUniform` (src/distr/standard.rs): the constant `GAP_SIZE`, the bounds of `Uniform::new(lo, hi)`
    (an exclusive u32 range), the gap removal `if n < <c> { n -= GAP_SIZE; }`, and the two `return`s: `char::from_u32(n).unwrap()` under
    `debug_assertions`, `char::from_u32_unchecked(n)` otherwise."""
    text = re.sub(r"//[^\n]*", "", open(os.path.join(repo, "src/distr/standard.rs")).read())
    m = re.search(r"impl\s+Distribution<char>\s+for\s+StandardUniform\s*\{", text)
    if not m:
        raise TranslateError("standard.rs: Distribution<char> not found")
    depth, j = 1, m.end()
    while depth:
        depth += {"{": 1, "}": -1}.get(text[j], 0)
        j += 1
    blk = text[m.end():j - 1]
    fm = re.search(r"fn\s+sample[^{]*\{", blk)
    depth, k = 1, fm.end()
    while depth:
        depth += {"{": 1, "}": -1}.get(blk[k], 0)
        k += 1
    body = blk[fm.end():k - 1]
    # the two returns, by their text (attributes are not statements of the translated subset)
    tail = re.search(r"#\[cfg\(debug_assertions\)\]\s*return\s+char::from_u32\((\w+)\)\.unwrap\(\);\s*#\[cfg\(not\(debug_assertions\)\)\]\s*(?:#\[allow\(unsafe_code\)\]\s*)?"
                     r"return\s+unsafe\s*\{\s*char::from_u32_unchecked\((\w+)\)\s*\};\s*$", body)
    if not tail or tail.group(1) != tail.group(2):
        raise TranslateError("standard.rs: the char sampler does not end in the checked / unchecked conversion of one value")
    nvar = tail.group(1)
    toks = retok(tokenize(body[:tail.start()]))
    stmts, tl = P(toks).body()
    if tl is not None or len(stmts) != 4:
        raise TranslateError("standard.rs: the char sampler has %d statements" % len(stmts))
    c, r, dn, gi = stmts
    if not (c[0] == "const" and r[0] == "let" and r[1][0] == "pid" and r[2][0] == "call" and r[2][1] == "Uniform::new" and len(r[2][2]) == 2
            and dn[0] == "let" and dn[1] == ("pid", nvar) and dn[2] == ("mcall", ("id", r[1][1]), "sample", [("id", "rand")])
            and gi[0] == "if" and gi[3] is None and len(gi[2][1]) == 1 and gi[2][2] is None):
        raise TranslateError("standard.rs: the char sampler is not `const G; let range = Uniform::new(a, b); let mut n = range.sample(rand); if .. { .. }`")
    unit = Unit("Urandom.Generated.Scalar.standard", os.path.join(repo, "src/rng/util.rs"), [])

    class F(LoopFn):
        def __init__(self):
            self.u, self.name, self.suffix = unit, "char", ""
            self.params, self.ret = [], None
            self.env, self.muts, self.sig = {}, [], []
    fn = F()
    fn.lines = []
    g, _ = fn.expr(c[2], ("u", 32))
    fn.env[c[1]] = ("var", "char_gap", ("u", 32))
    lo, _ = fn.expr(r[2][2][0], ("u", 32))
    hi, _ = fn.expr(r[2][2][1], ("u", 32))
    fn.env[nvar] = ("var", "n", ("u", 32))
    cond, cty = fn.expr(gi[1], None)
    a = gi[2][1][0]
    if not (a[0] == "assign" and a[1] == ("id", nvar)):
        raise TranslateError("standard.rs: the gap removal does not assign the value")
    v, _ = fn.expr(a[2], ("u", 32))
    if fn.lines or cty != ("bool",):
        raise TranslateError("standard.rs: char sampler expressions")
    return ("namespace standard\ndef char_gap : BitVec 32 := %s\n\ndef char_bounds : BitVec 32 × BitVec 32 := (%s, %s)\n\n"
            "def char_of (n : BitVec 32) : BitVec 32 :=\n  if %s then %s else n\nend standard\n" % (g, lo, hi, cond, v))


def dice(repo):
    """src/distr/dice.rs: `Dice::new(n)` must be `Dice(UniformInt::try_new_inclusive(<lo>, <hi>).unwrap())`, the constants
    `Dice(UniformInt::constant(<base>, <range>))`, `sample` `self.0.sample(rand) as i32` (a u8 widened: zero extension)"""
    text = re.sub(r"//[^\n]*", "", open(os.path.join(repo, "src/distr/dice.rs")).read())
    flat = "".join(text.split())
    if "pubstructDice(UniformInt<u8>);" not in flat:
        raise TranslateError("dice.rs: Dice is not a wrapper of UniformInt<u8>")
    m = re.search(r"pubfnnew\(n:u8\)->Dice\{Dice\(UniformInt::try_new_inclusive\((\w+),(\w+)\)\.unwrap\(\)\)\}", flat)
    if not m:
        raise TranslateError("dice.rs: Dice::new")
    arg = lambda a: "n" if a == "n" else "%d#8" % int(a)
    consts = re.findall(r"pubconst(D\d+):Dice=Dice\(UniformInt::constant\((\d+),(\d+)\)\);", flat)
    if len(consts) != flat.count("pubconst"):
        raise TranslateError("dice.rs: a constant of another shape")
    if "fnsample<R:Rng+?Sized>(&self,rand:&mutRandom<R>)->i32{self.0.sample(rand)asi32}" not in flat:
        raise TranslateError("dice.rs: sample is not `self.0.sample(rand) as i32`")
    return ("namespace dice\ndef new_args (n : BitVec 8) : BitVec 8 × BitVec 8 := (%s, %s)\n\ndef consts : List (String × Nat × Nat) := [%s]\nend dice\n" % (
        arg(m.group(1)), arg(m.group(2)), ", ".join('("%s", %s, %s)' % c for c in consts)))


def read_mock(repo):
    """src/rng/read.rs and mock.rs are glue around `io::Read::read_exact` / `Iterator::next`; their SHAPE is checked against the flattened
    source text and the numbers in it are extracted: how many bytes each word method of `Read` reads and which integer it decodes
    little-endian; that a failed read goes to the diverging `read_failed`; that `Mock` takes one word per draw (`as u32` = the low half),
    fills through `util::rng_fill_bytes` and does not implement `jump`."""
    rd = "".join(re.sub(r"//[^\n]*", "", open(os.path.join(repo, "src/rng/read.rs")).read()).split())
    out = {}
    for m, ty in (("next_u32", "u32"), ("next_u64", "u64")):
        g = re.search(r"fn%s\(&mutself\)->%s\{letmutbuf=\[0u8;(\d+)\];ifletErr\(err\)=self\.reader\.read_exact\(&mutbuf\)\{read_failed\(err\);\}u(\d+)::from_le_bytes\(buf\)\}" % (m, ty), rd)
        if not g:
            raise TranslateError("read.rs: %s is not `let mut buf = [0u8; N]; if let Err(err) = self.reader.read_exact(&mut buf) { read_failed(err); } uM::from_le_bytes(buf)`" % m)
        out[m] = (int(g.group(1)), int(g.group(2)))
    for need, what in (("fnfill_bytes(&mutself,buf:&mut[MaybeUninit<u8>]){letbuf:&mut[u8]=unsafe{mem::transmute(buf)};ifletErr(err)=self.reader.read_exact(buf){read_failed(err);}}", "fill_bytes"),
                       ("fnjump(&mutself){}", "jump"), ("fnread_failed(err:io::Error)->!{panic!(", "read_failed")):
        if need not in rd:
            raise TranslateError("read.rs: %s has another shape" % what)
    mk = "".join(re.sub(r"//[^\n]*", "", open(os.path.join(repo, "src/rng/mock.rs")).read()).split())
    for need, what in (("fnnext_u32(&mutself)->u32{self.0.next().unwrap()asu32}", "next_u32"), ("fnnext_u64(&mutself)->u64{self.0.next().unwrap()}", "next_u64"),
                       ("fnfill_bytes(&mutself,buf:&mut[MaybeUninit<u8>]){util::rng_fill_bytes(self,buf);}", "fill_bytes"), ("fnjump(&mutself){unimplemented!()}", "jump")):
        if need not in mk:
            raise TranslateError("mock.rs: %s has another shape" % what)
    return ("namespace readmock\ndef read_u32 : Nat × Nat := (%d, %d)\n\ndef read_u64 : Nat × Nat := (%d, %d)\n\ndef mock_shape_checked : Bool := true\nend readmock\n" % (out["next_u32"] + out["next_u64"]))


def alnum(repo):
    """src/distr/alnum.rs: the table `ALNUM` (a byte string; its declared length must be its length) and one trip round the loop of
    `Distribution<char> for Alnum`: `let value = <expr of one next_u32>; if <cond> { break ALNUM[<idx>] as char; }` becomes
    `alnum_iter d1 : Option (Option Nat)` - `none` = go round again, `some none` = the index is out of bounds (a panic), `some (some c)` = the
    byte returned as a char."""
    path = os.path.join(repo, "src/distr/alnum.rs")
    src = re.sub(r"//[^\n]*", "", open(path).read())
    m = re.search(r'const\s+ALNUM\s*:\s*&\[u8;\s*(\d+)\]\s*=\s*b"([^"\\\\]*)"\s*;', src)
    if not m or int(m.group(1)) != len(m.group(2)):
        raise TranslateError("alnum.rs: the table ALNUM")
    table = [ord(ch) for ch in m.group(2)]
    raw, _ = parse_fns(re.sub(r'b"[^"]*"', "0", src))
    cands = [f for f in raw.get("sample", []) if f[0] and f[0][0][0] == "self"]
    if len(cands) != 1:
        raise TranslateError("alnum.rs: sample not found (or not unique)")
    stmts, tail = P(cands[0][2]).body()
    if not (len(stmts) == 1 and stmts[0][0] == "loop" and tail is None):
        raise TranslateError("alnum.rs: the body is not one loop")
    body = list(stmts[0][1][1])
    if stmts[0][1][2] is not None:
        raise TranslateError("alnum.rs: the loop has a value")
    if not (len(body) == 2 and body[0][0] == "let" and body[0][1][0] == "pid" and body[1][0] == "if" and body[1][3] is None):
        raise TranslateError("alnum.rs: the loop is not `let value = ..; if .. { break .. }`")
    unit = Unit("Urandom.Generated.Scalar.alnum", os.path.join(repo, "src/rng/util.rs"), [])
    draws = []

    class F(LoopFn):
        def __init__(self):
            self.u, self.name, self.suffix = unit, "alnum", ""
            self.params, self.ret = [], None
            self.env, self.muts, self.sig = {}, [], []

        def typed(self, e):
            if e[0] == "mcall" and e[1] == ("id", "rand"):
                return ("u", 32 if e[2].endswith("32") else 64)
            if e[0] == "mcall" and e[1] == ("id", "ALNUM") and e[2] == "len":
                return ("u", 64)
            return LoopFn.typed(self, e)

        def expr(self, e, expect=None):
            if e[0] == "mcall" and e[1] == ("id", "rand") and not e[3]:
                if e[2] != "next_u32" or draws:
                    raise TranslateError("alnum.rs: draws")
                draws.append(e[2])
                return "d1", ("u", 32)
            if e[0] == "mcall" and e[1] == ("id", "ALNUM") and e[2] == "len" and not e[3]:
                return "(BitVec.ofNat 64 alnum_table.length)", ("u", 64)
            return LoopFn.expr(self, e, expect)
    fn = F()
    fn.lines = []
    t, ty = fn.expr(body[0][2], None)
    fn.env[body[0][1][1]] = ("var", body[0][1][1], ty)
    lines = ["let %s := %s" % (body[0][1][1], t)]
    c, cty = fn.expr(body[1][1], None)
    if cty != ("bool",):
        raise TranslateError("alnum.rs: condition")
    blk = body[1][2]
    brk = (blk[1][0] if blk[1] else None)
    if not (brk and brk[0] == "break" and len(blk[1]) == 1):
        raise TranslateError("alnum.rs: the guarded statement is not a break")
    v = brk[1]
    if not (v[0] == "cast" and v[2] == ["char"] and v[1][0] == "index" and v[1][1] == ("id", "ALNUM")):
        raise TranslateError("alnum.rs: the value is not ALNUM[..] as char")
    i, ity = fn.expr(v[1][2], None)
    if fn.lines:
        raise TranslateError("alnum.rs: hoisted statements")
    lines.append("if %s then some (alnum_table[(%s).toNat]?) else none" % (c, i))
    return ("namespace alnum\ndef alnum_table : List Nat := [%s]\n\ndef alnum_iter (d1 : BitVec 32) : Option (Option Nat) :=\n%s\n\n"
            "def alnum_draws : List String := [%s]\nend alnum\n" % (", ".join(map(str, table)), "\n".join("  " + l for l in lines), ", ".join('"%s"' % d for d in draws)))


def generate(repo, out_dir, write):
    """one generated file per group of sources, so that a file the translator cannot read breaks the obligations about that group only"""
    for fname, members, what in GROUPS:
        parts = ["/- GENERATED by tools/extract_scalar.py from %s on every run - do not edit. -/" % what,
                 "set_option linter.unusedVariables false", "namespace Urandom.Generated.Scalar", ""]
        try:
            for ns, rel, wanted in UNITS:
                if ns.split(".")[-1] in members:
                    parts.append(Unit(ns, os.path.join(repo, rel), wanted).lean())
            if "float01" in members:
                parts.append(float01_samples(repo))
            if "readmock" in members:
                parts.append(read_mock(repo))
            if "dice" in members:
                parts.append(dice(repo))
            if "standard" in members:
                parts.append(standard_prims(repo))
                parts.append(std_char(repo))
                parts.append(alnum(repo))
            if "uniform_int" in members:
                parts.append(uniform_int(repo)[0])
            if "xoshiro" in members:
                parts.append(generator_objects(repo))
            if "chacha" in members:
                parts.append(chacha_state(repo))
            parts.append("end Urandom.Generated.Scalar\n")
            text = "\n".join(parts)
        except Exception as e:          # whatever goes wrong while reading an unfamiliar source: no definitions, the obligations of this group do not build
            msg = ("%s: %s" % (type(e).__name__, e)).replace("-/", "- /")
            text = ("/- tools/extract_scalar.py could not translate the current source: %s -/\n"
                    "namespace Urandom.Generated.Scalar\ndef translation_failed_%s : Nat := translation_of_the_current_source_failed\nend Urandom.Generated.Scalar\n" % (msg, fname))
        write(os.path.join(out_dir, fname + ".lean"), text)


if __name__ == "__main__" and len(sys.argv) == 1:
    repo = os.environ.get("VERIF_REPO", "/repo")
    for ns, rel, wanted in UNITS:
        print(Unit(ns, os.path.join(repo, rel), wanted).lean())


# ------------------------------------------------------------------------------------------------ the integer sampler (macro-generated)
SIGNED = {"i8": 8, "i16": 16, "i32": 32, "i64": 64, "isize": 64, "i128": 128}
UNSIGNED = {"u8": 8, "u16": 16, "u32": 32, "u64": 64, "usize": 64, "u128": 128}


class LoopFn(Fn):
    """`fn sample(&self, rand) -> T { <lets>; loop { let value = rand.next_uXX(); ... break e; ... } }` of one instantiation of
    `impl_uniform_int!`: translated into `<name>_init` (the values of the variables the loop reads, from the fields of `self`) and
    `<name>_iter` (one trip round the loop as a function of the drawn word: `.inl result` = `break result`, `.inr vars` = go round again
    with these values of the variables the loop assigns)."""

    def __init__(self, unit, name, fields, ret, body_toks, suffix):
        self.u, self.name, self.suffix = unit, name, suffix
        self.params, self.ret = [], ret
        self.stmts, self.tail = P(body_toks).body()
        self.env, self.muts, self.sig = {}, [], []
        for fname, t in fields:
            self.env["self." + fname] = ("var", "self_" + fname, t)
            self.sig.append("(self_%s : %s)" % (fname, lean_ty(t)))

    def expr(self, e, expect=None):
        if e[0] == "field" and e[1] == ("id", "self"):
            v = self.env["self." + e[2]]
            return v[1], v[2]
        if e[0] == "cast":
            inner = e[1]
            t, ty = self.expr(inner, None if inner[0] != "num" else self.cast_ty(e[2][0]))
            to = self.cast_ty(e[2][0])
            if ty[0] == "i" and to[1] > ty[1]:
                raise TranslateError("widening cast from a signed type")
            txt = t if to[1] == ty[1] else "(%s).setWidth %d" % (t, to[1])
            return txt, to
        if e[0] == "bin" and e[1] in (">=", "<=", "<", ">"):
            ty = self.typed(e[2]) or self.typed(e[3])
            l, lt = self.expr(e[2], ty)
            r, _ = self.expr(e[3], lt)
            if lt[0] != "u":
                raise TranslateError("ordering comparison of a signed value")
            return "(%s %s %s)" % (l, {">=": "≥", "<=": "≤", "<": "<", ">": ">"}[e[1]], r), ("bool",)
        if e[0] == "bin" and e[1] == "%":
            ty = self.typed(e[2]) or self.typed(e[3]) or expect
            l, lt = self.expr(e[2], ty)
            r, _ = self.expr(e[3], lt)
            return "(%s %% %s)" % (l, r), lt
        return Fn.expr(self, e, expect)

    def cast_ty(self, name):
        if name in SIGNED:
            return ("i", SIGNED[name])
        if name in UNSIGNED:
            return ("u", UNSIGNED[name])
        raise TranslateError("cast to %s" % name)

    def typed(self, e):
        if e[0] == "field" and e[1] == ("id", "self"):
            return self.env["self." + e[2]][2]
        if e[0] == "cast":
            return self.cast_ty(e[2][0]) if (e[2][0] in SIGNED or e[2][0] in UNSIGNED) else None
        return Fn.typed(self, e)

    def flow(self, stmts, carried, depth):
        """statements of the loop body -> Lean text of type Sum ret carried; the statements after an `if` are continued in both branches"""
        ind = "  " * depth
        if not stmts:
            names = [self.env[c][1] for c in carried]
            return ind + ".inr %s" % (names[0] if len(names) == 1 else "(%s)" % ", ".join(names))
        s, rest = stmts[0], stmts[1:]
        if s[0] == "break":
            t, ty = self.expr(s[1], self.ret)
            return ind + ".inl %s" % (t if re.match(r"^\w+$", t) else "(%s)" % t)
        if s[0] == "if":
            c, _ = self.expr(s[1])
            saved = dict(self.env)
            a = self.flow(list(s[2][1]) + ([("break", s[2][2])] if s[2][2] is not None else []) + list(rest), carried, depth + 1)
            self.env = dict(saved)
            b = self.flow((list(s[3][1]) if s[3] else []) + list(rest), carried, depth + 1)
            self.env = saved
            return "%sif %s then\n%s\n%selse\n%s" % (ind, c, a, ind, b)
        saved_lines = self.lines
        self.lines = []
        self.run([s])
        mine = self.lines
        self.lines = saved_lines
        return "\n".join(ind + l for l in mine) + ("\n" if mine else "") + self.flow(rest, carried, depth)

    def lean(self):
        self.lines, self.result, self.aux = [], None, []
        pre = [s for s in self.stmts if s[0] != "loop"]
        loops = [s for s in self.stmts if s[0] == "loop"]
        if len(loops) != 1 or self.stmts[-1][0] != "loop" or self.tail is not None:
            raise TranslateError("%s: expected <lets>; loop { .. }" % self.name)
        self.run(pre)
        init_lines = self.lines
        body = list(loops[0][1][1]) + ([("break", loops[0][1][2])] if loops[0][1][2] is not None else [])
        # the draw: exactly one, first
        d = body[0]
        if not (d[0] == "let" and d[1][0] == "pid" and d[2][0] == "mcall" and d[2][1] == ("id", "rand") and d[2][2] in ("next_u32", "next_u64") and not d[2][3]):
            raise TranslateError("%s: the loop does not start with one draw" % self.name)
        wbits = 32 if d[2][2] == "next_u32" else 64
        if any("rand" in repr(x) for x in body[1:]):
            raise TranslateError("%s: a second draw inside the loop" % self.name)
        outer = [n for n in self.env if not n.startswith("self.")]
        carried = [n for n in self.targets(body[1:], []) if n in outer]
        readonly = [n for n in outer if n not in carried]
        vars_sig = " ".join("(%s : %s)" % (self.env[n][1], lean_ty(self.env[n][2])) for n in readonly + carried)
        init_tuple = [self.env[n][1] for n in readonly + carried]
        out = "def %s_init_%s %s :=\n%s\n  %s\n\n" % (self.name, self.suffix, " ".join(self.sig), "\n".join("  " + l for l in init_lines),
                                                   init_tuple[0] if len(init_tuple) == 1 else "(%s)" % ", ".join(init_tuple))
        self.env[d[1][1]] = ("var", d[1][1], ("u", wbits))
        ctys = [lean_ty(self.env[c][2]) for c in carried]
        self.lines = []
        text = self.flow(body[1:], carried, 1)
        out += "def %s_iter_%s %s %s (%s : BitVec %d) : Sum (%s) (%s) :=\n%s\n" % (
            self.name, self.suffix, " ".join(self.sig), vars_sig, d[1][1], wbits, lean_ty(self.ret), " × ".join(ctys), text)
        return out


class CtorFn(LoopFn):
    """`fn try_new(low, high) -> Result<UniformInt<T>, UniformError>` / `try_new_inclusive` of one instantiation of `impl_uniform_int!`:
    `if <ordering of low and high> { return Err(UniformError::EmptyRange); } let range = <wrapping arithmetic>; Ok(UniformInt { base: low, range })`
    becomes `Option (base, range)` (`none` = the error).  The ordering is the type's own: signed types compare as `BitVec.slt` / `BitVec.sle`."""

    def __init__(self, unit, name, ty, body_toks, suffix):
        self.u, self.name, self.suffix, self.ty = unit, name, suffix, ty
        self.params, self.ret = [], None
        self.stmts, self.tail = SP(body_toks).body()
        self.env = {"low": ("var", "low", ty), "high": ("var", "high", ty)}
        self.muts, self.sig = [], []

    def typed(self, e):
        if e[0] == "mcall" and e[2] in ("wrapping_sub", "wrapping_add"):
            return self.typed(e[1])
        return LoopFn.typed(self, e)

    def expr(self, e, expect=None):
        if e[0] == "num" and expect and expect[0] in ("u", "i"):
            return "%d#%d" % (e[1], expect[1]), expect
        if e[0] == "bin" and e[1] in (">=", "<=", "<", ">"):
            l, lt = self.expr(e[2], self.typed(e[2]) or self.typed(e[3]))
            r, _ = self.expr(e[3], lt)
            if lt[0] == "u":
                return "decide (%s %s %s)" % (l, {">=": "≥", "<=": "≤", "<": "<", ">": ">"}[e[1]], r), ("bool",)
            a, b, f = {">=": (r, l, "sle"), "<=": (l, r, "sle"), ">": (r, l, "slt"), "<": (l, r, "slt")}[e[1]]
            return "(BitVec.%s %s %s)" % (f, a, b), ("bool",)
        if e[0] == "mcall" and e[2] in ("wrapping_sub", "wrapping_add"):
            l, lt = self.expr(e[1], expect)
            r, _ = self.expr(e[3][0], lt)
            return "(%s %s %s)" % (l, "-" if e[2] == "wrapping_sub" else "+", r), lt
        return LoopFn.expr(self, e, expect)

    def lean(self):
        st = self.stmts
        if not (len(st) == 2 and st[0][0] == "if" and st[0][3] is None and st[1][0] == "let" and st[1][1][0] == "pid"):
            raise TranslateError("%s: expected `if .. { return Err(..) } let range = ..; Ok(..)`" % self.name)
        blk = st[0][2]
        ret = blk[1][0] if blk[1] else None
        if not (ret and ret[0] == "return" and ret[1][0] == "call" and ret[1][1] == "Err" and len(blk[1]) == 1 and blk[2] is None):
            raise TranslateError("%s: the guarded statement is not `return Err(..)`" % self.name)
        if "EmptyRange" not in repr(ret[1][2]):
            raise TranslateError("%s: the error is not UniformError::EmptyRange" % self.name)
        c, _ = self.expr(st[0][1])
        self.lines = []
        t, ty = self.expr(st[1][2], None)
        if ty[1] != self.ty[1]:
            raise TranslateError("%s: the range has another width" % self.name)
        self.env[st[1][1][1]] = ("var", st[1][1][1], ty)
        tl = self.tail
        if not (tl and tl[0] == "call" and tl[1] == "Ok" and len(tl[2]) == 1 and tl[2][0][0] == "struct" and tl[2][0][1] == "UniformInt"):
            raise TranslateError("%s: the result is not Ok(UniformInt { .. })" % self.name)
        fields = dict(tl[2][0][2])
        if set(fields) != {"base", "range"}:
            raise TranslateError("%s: fields %r" % (self.name, sorted(fields)))
        b, _ = self.expr(fields["base"] if fields["base"] is not None else ("id", "base"), self.ty)
        r, _ = self.expr(fields["range"] if fields["range"] is not None else ("id", "range"), self.ty)
        w = self.ty[1]
        return ("def %s_%s (low high : BitVec %d) : Option (BitVec %d × BitVec %d) :=\n  if %s then none else\n  let %s := %s\n  some (%s, %s)\n" % (
            self.name, self.suffix, w, w, w, c, st[1][1][1], t, b, r))


def lean_ty_i(t):
    return "BitVec %d" % t[1]


_old_lean_ty = lean_ty


def lean_ty(t):          # signed integers are their bit patterns
    if t[0] == "i":
        return "BitVec %d" % t[1]
    return _old_lean_ty(t)


def uniform_int(repo):
    path = os.path.join(repo, "src/distr/uniform/int.rs")
    src = open(path).read()
    toks = retok(tokenize(src))
    # the macro and its invocations (the ones for 32-bit targets are left out: the model is the 64-bit configuration)
    i = next(k for k, t in enumerate(toks) if t == ("id", "macro_rules"))
    if toks[i + 2] != ("id", "impl_uniform_int"):
        raise TranslateError("int.rs: macro impl_uniform_int not found")
    j = matching(toks, i + 3)
    inner = toks[i + 4:j]
    pe = matching(inner, 0)
    params = [p[0][1] for p in split_top(inner[1:pe], ",") if p]
    be = matching(inner, pe + 2)
    body = inner[pe + 3:be]
    unit = Unit("Urandom.Generated.Scalar.uniform_int", path, ["wmul32", "wmul64"])
    out = ["namespace uniform_int", unit.fn("wmul32").lean(), unit.fn("wmul64").lean()]
    insts = []
    k = j + 1
    while k < len(toks):
        if toks[k] == ("id", "impl_uniform_int") and toks[k + 1] == ("op", "!"):
            e = matching(toks, k + 2)
            args = [a for a in split_top(toks[k + 3:e], ",") if a]
            # a preceding #[cfg(target_pointer_width = "..")] - strings are dropped by the tokenizer, so look at the source text
            insts.append((args, k))
            k = e + 1
        else:
            k += 1
    # cfg attributes: by order of appearance in the text
    cfgs = re.findall(r'(#\[cfg\(target_pointer_width\s*=\s*"(\d+)"\)\]\s*)?impl_uniform_int!\s*\{\s*(\w+)', re.sub(r"//[^\n]*", "", src))
    if len(cfgs) != len(insts):
        raise TranslateError("int.rs: cannot match the cfg attributes of the macro invocations")
    seen = []
    for (args, _), (_, width, tyname) in zip(insts, cfgs):
        if width == "32":
            continue
        sub = dict(zip(params, args))
        exp = []
        for t in body:
            exp += sub[t[1]] if t[0] == "id" and t[1] in sub else [t]
        # fn sample in the expansion
        f = next(n for n in range(len(exp)) if exp[n] == ("id", "fn") and exp[n + 1] == ("id", "sample"))
        b0 = next(n for n in range(f, len(exp)) if exp[n] == ("op", "{"))
        b1 = matching(exp, b0)
        tname = args[0][0][1]
        tt = ("i", SIGNED[tname]) if tname in SIGNED else ("u", UNSIGNED[tname])
        lf = LoopFn(unit, "sample", [("base", tt), ("range", tt)], tt, exp[b0 + 1:b1], tname)
        out.append(lf.lean())
        for ctor in ("try_new", "try_new_inclusive"):
            cf = [n for n in range(len(exp)) if exp[n] == ("id", "fn") and exp[n + 1] == ("id", ctor)]
            if len(cf) != 1:
                raise TranslateError("int.rs: %s not found in the macro (or not unique)" % ctor)
            c0 = next(n for n in range(cf[0], len(exp)) if exp[n] == ("op", "{"))
            out.append(CtorFn(unit, ctor, tt, exp[c0 + 1:matching(exp, c0)], tname).lean())
        seen.append(tname)
    out.append("end uniform_int\n")
    return "\n".join(out), seen


if __name__ == "__main__" and "--uniform" in sys.argv:
    print(uniform_int(os.environ.get("VERIF_REPO", "/repo"))[0])


# ------------------------------------------------------------------------------------------------ generator objects: Rng impl methods, from_seed
GEN_FILES = {"splitmix": ("src/rng/splitmix64.rs", "SplitMix64", [("id", "u64")]),
             "wyrand": ("src/rng/wyrand.rs", "Wyrand", [("id", "u64")]),
             "xoshiro": ("src/rng/xoshiro256.rs", "Xoshiro256", [("op", "["), ("id", "u64"), ("op", ";"), ("num", 4), ("op", "]")])}
METHODS = {"splitmix": ["next_u32", "next_u64", "jump"], "wyrand": ["next_u32", "next_u64", "jump"],
           "xoshiro": ["next_u32", "next_u64", "next_f32", "next_f64", "jump"]}


def despace_self(toks):
    """`self.state` -> the variable `state` (the generators are structs with the one field `state`)"""
    out, i = [], 0
    while i < len(toks):
        if toks[i:i + 3] == [("id", "self"), ("op", "."), ("id", "state")]:
            out.append(("id", "state"))
            i += 3
        else:
            out.append(toks[i])
            i += 1
    return out


class ObjFn(Fn):
    """functions that use generator objects: `T::from_seed(e)` is an object whose state is what T's constructor stores, `obj.next_u64()` is T's
    translated method on that state (rebinding it), `Random::wrap(T { state: e })` / `T { state }` is the state itself"""

    def __init__(self, unit, name, params, ret, body_toks, world):
        self.world = world
        Fn.__init__(self, unit, name, params, None, body_toks)
        self.ret = None

    def typed(self, e):
        if e[0] == "call" and e[1].startswith("util::"):
            return ("u", WIDTH["u32" if e[1].endswith("f32") else "u64"])
        return Fn.typed(self, e)

    def expr(self, e, expect=None):
        k = e[0]
        if k == "call" and e[1] == "Random::wrap":
            return self.expr(e[2][0], expect)
        if k == "struct":
            (fname, fe), = e[2]
            return self.expr(fe if fe is not None else ("id", fname), expect)
        if k == "call" and e[1].endswith("::from_seed") and e[1].split("::")[0] in [v[1] for v in GEN_FILES.values()]:
            g = next(n for n, v in GEN_FILES.items() if v[1] == e[1].split("::")[0])
            arg, ty = self.expr(e[2][0], ("u", 64))
            return "(Urandom.Generated.Scalar.%s.from_seed %s)" % (g, arg), ("obj", g)
        if k == "call" and e[1].startswith("util::"):
            a, _ = self.expr(e[2][0], ("u", 32 if e[1].endswith("f32") else 64))
            return "(Urandom.Generated.Scalar.util.%s (%s))" % (e[1].split("::")[1], a), ("u", 32 if e[1].endswith("f32") else 64)
        if k == "mcall" and e[1][0] == "id" and e[1][1] in self.env and self.env[e[1][1]][0] == "var" and self.env[e[1][1]][2][0] == "obj":
            v = self.env[e[1][1]]
            g = v[2][1]
            if e[2] not in METHODS[g]:
                raise TranslateError("method %s of %s" % (e[2], g))
            self.tmp = getattr(self, "tmp", 0) + 1
            r = "r%d" % self.tmp
            self.lines.append("let (%s, %s) := Urandom.Generated.Scalar.%s.m_%s %s" % (r, v[1], g, e[2], v[1]))
            return r, ("u", 32 if e[2].endswith("32") else 64)
        if k == "array":
            parts = [self.expr(x, ("u", 64)) for x in e[1]]
            return "(" + ", ".join(p[0] for p in parts) + ")", ("tuple", [p[1] for p in parts])
        return Fn.expr(self, e, expect)

    def run(self, stmts):
        for s in stmts:
            if s[0] == "let" and s[1][0] == "pid":
                t, ty = self.expr(s[2])
                self.env[s[1][1]] = ("var", s[1][1], ty)
                self.lines.append("let %s := %s" % (s[1][1], t))
            else:
                Fn.run(self, [s])


class SP(P):
    """+ struct literals `T { field: e }` / `T { field }`"""

    def primary(self):
        t = self.peek()
        if t[0] == "id" and t[1][:1].isupper() and self.peek(1) == ("op", "{") and self.peek(2)[0] == "id" and self.peek(3) in (("op", ":"), ("op", "}"), ("op", ",")):
            name = self.eat("id")
            self.eat("op", "{")
            fields = []
            while not self.at("}"):
                f = self.eat("id")
                v = None
                if self.at(":"):
                    self.eat("op")
                    v = self.expr()
                fields.append((f, v))
                if self.at(","):
                    self.eat("op")
            self.eat("op", "}")
            return ("struct", name, fields)
        return P.primary(self)

    def block(self):
        self.eat("op", "{")
        j = matching(self.t, self.i - 1)
        inner = SP(self.t[self.i:j])
        self.i = j + 1
        return ("block",) + inner.body()


ObjFn.PARSER = SP


def generator_objects(repo):
    """per generator: the Rng impl methods as functions of the state (`m_<name> state = (result, state')`, `m_jump state = state'`) and `from_seed`"""
    out = []
    for g, (rel, tyname, state_ty) in GEN_FILES.items():
        path = os.path.join(repo, rel)
        raw, consts = parse_fns(open(path).read())
        unit = next(Unit(ns, os.path.join(repo, r), wanted) for ns, r, wanted in UNITS if ns.endswith("." + g))
        out.append("namespace %s" % g)
        for m in METHODS[g]:
            cands = [f for f in raw.get(m, []) if f[0] and f[0][0][0] == "self"]
            if len(cands) != 1:
                raise TranslateError("%s: method %s not found (or not unique)" % (rel, m))
            params, ret, body = cands[0]
            fn = ObjFn(unit, "m_" + m, [("state", state_ty, True)], ret, despace_self(body), None)
            fn.ret = ty_of(ret) if ret else None
            out.append(fn.lean())
        cands = [f for f in raw.get("from_seed", []) if not (f[0] and f[0][0][0] == "self")]
        if len(cands) != 1:
            raise TranslateError("%s: from_seed not found" % rel)
        params, ret, body = cands[0]
        fn = ObjFn(unit, "from_seed", [(p[0], p[1], False) for p in params], None, body, None)
        out.append(fn.lean())
        out.append("end %s\n" % g)
    return "\n".join(out)


if __name__ == "__main__" and "--objects" in sys.argv:
    print(generator_objects(os.environ.get("VERIF_REPO", "/repo")))


# ------------------------------------------------------------------------------------------------ ChaChaState (a struct of three arrays of u32)
CHACHA_FIELDS = [("seed", 8), ("counter", 2), ("stream", 2)]
CHACHA_METHODS = ["new", "get_state", "get_counter", "set_counter", "add_counter", "get_stream", "set_stream", "jump"]


class StructFn(Fn):
    """methods of `ChaChaState` (`impl ChaChaState`, `impl BlockRng for ChaChaState`) and `ChaCha::from_seed`.  An object is its twelve
    32-bit words; `&mut self` methods return them again, `-> ChaChaState` methods return the twelve words of the result."""
    PARSER = None     # set below

    def __init__(self, unit, name, params, ret_toks, body_toks, sigs):
        self.u, self.name, self.sigs = unit, name, sigs
        self.params = params
        self.stmts, self.tail = SP(body_toks).body()
        self.env, self.muts, self.sig, self.lines, self.aux = {}, [], [], [], []
        self.self_mut = False
        for pname, ty, mut in params:
            if pname == "self":
                self.env["self"] = ("st", self.obj_names("self"))
                self.sig += ["(%s : BitVec 32)" % n for n in self.flat(self.env["self"])]
                self.self_mut = mut
            else:
                t = ty_of(ty)
                if t[0] == "arr":
                    names = ["%s_%d" % (pname, i) for i in range(t[2])]
                    self.env[pname] = ("arr", names, t[1])
                    self.sig += ["(%s : BitVec %d)" % (n, t[1]) for n in names]
                else:
                    self.env[pname] = ("var", pname, t)
                    self.sig.append("(%s : %s)" % (pname, lean_ty(t)))
        rt = "".join(str(x[1]) for x in ret_toks) if ret_toks else ""
        self.ret_kind = "obj" if rt.startswith("ChaChaState") else "state16" if rt.startswith("[[u32") else "val" if ret_toks else None
        self.ret = ty_of(ret_toks) if self.ret_kind == "val" else None
        self.tmp = 0

    def obj_names(self, prefix):
        return {f: ["%s_%s_%d" % (prefix, f, i) for i in range(n)] for f, n in CHACHA_FIELDS}

    def flat(self, v):
        return [n for f, _ in CHACHA_FIELDS for n in v[1][f]]

    def fresh_obj(self, prefix, texts):
        """bind twelve texts to fresh names; returns the object"""
        self.tmp += 1
        o = ("st", self.obj_names("%s%d" % (prefix, self.tmp)))
        for n, t in zip(self.flat(o), texts):
            self.lines.append("let %s := %s" % (n, t))
        return o

    def typed(self, e):
        if e[0] == "index" and e[1][0] == "field":
            return ("u", 32)
        if e[0] == "mcall" and e[2] in ("get_counter", "get_stream"):
            return ("u", 64)
        return Fn.typed(self, e)

    def elems(self, e):
        """an array-valued expression -> list of (text) of its u32 elements"""
        if e[0] == "id" and e[1] in self.env and self.env[e[1]][0] == "arr":
            return list(self.env[e[1]][1])
        if e[0] == "id" and e[1] in self.u.consts and self.u.consts[e[1]][0][0] == "array":
            return ["%d#32" % x[1] for x in self.u.consts[e[1]][0][1]]
        if e[0] == "field" and e[1][0] == "id" and e[1][1] in self.env and self.env[e[1][1]][0] == "st":
            return list(self.env[e[1][1]][1][e[2]])
        if e[0] == "array":
            return [self.expr(x, ("u", 32))[0] for x in e[1]]
        raise TranslateError("not an array of words: %r" % (e,))

    def obj_of(self, e):
        if e[0] == "id" and e[1] in self.env and self.env[e[1]][0] == "st":
            return self.env[e[1]]
        if e[0] == "struct":
            vals = {}
            for f, fe in e[2]:
                vals[f] = self.elems(fe if fe is not None else ("id", f))
            if len(e[2]) == 1 and e[2][0][0] not in dict(CHACHA_FIELDS):        # a wrapper struct with one field (ChaCha { inner })
                return self.obj_of(e[2][0][1] if e[2][0][1] is not None else ("id", e[2][0][0]))
            return self.fresh_obj("lit", [t for f, _ in CHACHA_FIELDS for t in vals[f]])
        if e[0] == "call" and e[1] in ("Random::wrap", "BlockRngImpl::new"):
            return self.obj_of(e[2][0])
        if e[0] == "call" and e[1] in ("ChaChaState::new", "ChaChaState::<N>::new"):
            args = self.elems(e[2][0]) + [self.expr(e[2][1], ("u", 64))[0], self.expr(e[2][2], ("u", 64))[0]]
            self.tmp += 1
            o = ("st", self.obj_names("new%d" % self.tmp))
            self.lines.append("let (%s) := Urandom.Generated.Scalar.chacha.new %s" % (", ".join(self.flat(o)), " ".join("(%s)" % a for a in args)))
            return o
        if e[0] == "mcall" and e[2] == "clone":
            src = self.obj_of(e[1])
            return self.fresh_obj("copy", self.flat(src))
        raise TranslateError("not a ChaChaState: %r" % (e,))

    def expr(self, e, expect=None):
        k = e[0]
        if k == "index" and e[1][0] == "field":
            o = self.env[e[1][1][1]]
            return o[1][e[1][2]][e[2][1]], ("u", 32)
        if k == "cast":
            t, ty = self.expr(e[1], None if e[1][0] != "num" else ("u", WIDTH[e[2][0]]))
            w = WIDTH[e[2][0]]
            return (t if ty == ("u", w) else "(%s).setWidth %d" % (t, w)), ("u", w)
        if k == "mcall" and e[1][0] == "id" and e[1][1] in self.env and self.env[e[1][1]][0] == "st":
            o = self.env[e[1][1]]
            m = e[2]
            if m in ("get_counter", "get_stream"):
                return "(Urandom.Generated.Scalar.chacha.%s %s)" % (m, " ".join(self.flat(o))), ("u", 64)
            if m in ("set_counter", "set_stream"):
                a, _ = self.expr(e[3][0], ("u", 64))
                self.lines.append("let (%s) := Urandom.Generated.Scalar.chacha.%s %s (%s)" % (", ".join(self.flat(o)), m, " ".join(self.flat(o)), a))
                return None, None
            raise TranslateError("method %s on a ChaChaState" % m)
        return Fn.expr(self, e, expect)

    def run(self, stmts):
        for s in stmts:
            if s[0] == "let" and s[1][0] == "pid":
                try:
                    o = self.obj_of(s[2])
                    self.env[s[1][1]] = o
                    continue
                except TranslateError:
                    pass
                t, ty = self.expr(s[2])
                self.env[s[1][1]] = ("var", s[1][1], ty)
                self.lines.append("let %s := %s" % (s[1][1], t))
            elif s[0] == "assign" and s[1][0] == "index" and s[1][1][0] == "field":
                o = self.env[s[1][1][1][1]]
                tgt = o[1][s[1][1][2]][s[1][2][1]]
                t, _ = self.expr(s[2], ("u", 32))
                self.lines.append("let %s := %s" % (tgt, t))
            elif s[0] == "expr":
                t, ty = self.expr(s[1])
                if t is not None:
                    raise TranslateError("expression statement without effect")
            else:
                Fn.run(self, [s])

    def lean(self, stop_at=None):
        self.lines = []
        stmts = self.stmts
        if stop_at:                   # from_seed: the value of the local `state` is the result
            idx = next(i for i, s in enumerate(stmts) if s[0] == "let" and s[1] == ("pid", stop_at))
            stmts = stmts[:idx + 1]
        self.run(stmts)
        if stop_at:
            res = "(%s)" % ", ".join(self.flat(self.env[stop_at]))
        elif self.ret_kind == "obj":
            res = "(%s)" % ", ".join(self.flat(self.obj_of(self.tail)))
        elif self.ret_kind == "state16":
            if self.tail[0] != "array" or len(self.tail[1]) != 4:
                raise TranslateError("get_state: four rows expected")
            res = "(%s)" % ", ".join(t for row in self.tail[1] for t in self.elems(row))
        elif self.ret_kind == "val":
            res, _ = self.expr(self.tail, self.ret)
        else:
            if self.tail is not None:
                t, _ = self.expr(self.tail)
                if t is not None:
                    raise TranslateError("%s: unexpected tail" % self.name)
            res = "(%s)" % ", ".join(self.flat(self.env["self"]))
        return "def %s %s :=\n%s\n" % (self.name, " ".join(self.sig), "\n".join("  " + l for l in self.lines + [res]))


def chacha_state(repo):
    path = os.path.join(repo, "src/rng/chacha.rs")
    src = open(path).read()
    raw, consts = parse_fns(src)
    # array constants (CONSTANT)
    toks = retok(tokenize(src))
    for i, t in enumerate(toks):
        if t == ("id", "const") and toks[i + 2] == ("op", ":") and toks[i + 3] == ("op", "[") and toks[i + 1][1].isupper():
            te = matching(toks, i + 3)
            if toks[te + 1] != ("op", "="):
                continue
            j = te + 1
            depth = 0
            while not (toks[j] == ("op", ";") and depth == 0):
                if toks[j][0] == "op" and toks[j][1] in OPEN:
                    depth += 1
                elif toks[j][0] == "op" and toks[j][1] in OPEN.values():
                    depth -= 1
                j += 1
            consts[toks[i + 1][1]] = (P(toks[te + 2:j]).expr(), "u32")

    class U:
        pass
    unit = U()
    unit.ns, unit.consts, unit.fns = "Urandom.Generated.Scalar.chacha", consts, {}
    unit.fn = lambda n: None
    unit.const_env = lambda n: None
    out = ["namespace chacha"]
    for m in CHACHA_METHODS:
        cands = raw.get(m, [])
        if m == "jump":
            cands = [f for f in cands if "set_stream" in repr(f[2])]
        if m == "new":
            cands = [f for f in cands if len(f[0]) == 3]
        if len(cands) != 1:
            raise TranslateError("chacha.rs: method %s not found (or not unique: %d)" % (m, len(cands)))
        params, ret, body = cands[0]
        out.append(StructFn(unit, m, params, ret, body, None).lean())
    cands = [f for f in raw.get("from_seed", []) if len(f[0]) == 1 and f[0][0][0] == "seed"]
    if len(cands) != 1:
        raise TranslateError("chacha.rs: from_seed not found")
    params, ret, body = cands[0]
    out.append(StructFn(unit, "from_seed", params, None, body, None).lean(stop_at="state"))
    out.append("end chacha\n")
    return "\n".join(out)


if __name__ == "__main__" and "--chacha" in sys.argv:
    print(chacha_state(os.environ.get("VERIF_REPO", "/repo")))
