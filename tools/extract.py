#!/usr/bin/env python3
"""Translator (run on every check): regenerates lean/Urandom/Generated/{Traits,ZigTables}.lean from the
current source text of /repo, so that the theorems about them are re-proved against what the code says now.
Only *data* is translated: the SecureRng impl facts (C20) and the four ziggurat tables (C16)."""
import os, re, sys

REPO = os.environ.get("VERIF_REPO", "/repo")
OUT = os.path.join(os.path.dirname(os.path.dirname(os.path.abspath(__file__))), "lean", "Urandom", "Generated")


def strip_comments(src):
    src = re.sub(r"/\*.*?\*/", "", src, flags=re.S)
    return re.sub(r"//[^\n]*", "", src)


def write_if_changed(path, text):
    if os.path.exists(path) and open(path).read() == text:
        return
    os.makedirs(os.path.dirname(path), exist_ok=True)
    open(path, "w").write(text)


def lean_str(s):
    return '"' + s.replace("\\", "\\\\").replace('"', '\\"') + '"'


def norm(s):
    return re.sub(r"\s+", " ", s).strip()


def secure_impls():
    """(file, generics, target, where-clause) of every `impl .. SecureRng for ..` in the current source"""
    impls = []
    for root, _, files in os.walk(os.path.join(REPO, "src")):
        for f in sorted(files):
            if f.endswith(".rs"):
                rel = os.path.relpath(os.path.join(root, f), REPO)
                src = strip_comments(open(os.path.join(root, f)).read())
                for m in re.finditer(r"\bimpl\s*(<[^{;]*?>)?\s*(?:[\w:]*::)?SecureRng\s+for\s+([^{;]+?)\s*(?:where\s+([^{;]+?))?\s*\{", src):
                    impls.append((rel, norm(m.group(1) or ""), norm(m.group(2)), norm(m.group(3) or "")))
    return sorted(impls)


def impl_blocks(src):
    """(header, body) of every `impl` item in a source text (brace matching; comments already stripped)"""
    out = []
    for m in re.finditer(r"\bimpl\b", src):
        i = src.find("{", m.end())
        semi = src.find(";", m.end())
        if i < 0 or (0 <= semi < i):
            continue
        header = norm(src[m.start():i])
        depth, j = 0, i
        while j < len(src):
            if src[j] == "{":
                depth += 1
            elif src[j] == "}":
                depth -= 1
                if depth == 0:
                    break
            j += 1
        out.append((header, src[i + 1:j]))
    return out


def chacha_seeders():
    """every fn inside an `impl` item for a ChaCha type that takes another generator (a parameter mentioning `Random<` or a type parameter
    bounded by `Rng`): (file, impl header, fn name, fn generics, fn args, fn where-clause).  These are the ways to seed a ChaCha from a generator."""
    found = []
    for root, _, files in os.walk(os.path.join(REPO, "src")):
        for f in sorted(files):
            if not f.endswith(".rs"):
                continue
            rel = os.path.relpath(os.path.join(root, f), REPO)
            src = strip_comments(open(os.path.join(root, f)).read())
            for header, body in impl_blocks(src):
                if not re.search(r"\bChaCha\b", header) or re.search(r"\bfor\s+(?!ChaCha\b)\w", header) and not re.search(r"\bfor\s+ChaCha\b", header):
                    continue
                for m in re.finditer(r"\bfn\s+(\w+)\s*(<[^({]*>)?\s*\(([^)]*)\)\s*(?:->\s*([^{;]*?))?\s*(?:where\s+([^{;]+?))?\s*[{;]", body):
                    name, gen, args, ret, where = m.group(1), norm(m.group(2) or ""), norm(m.group(3)), norm(m.group(4) or ""), norm(m.group(5) or "")
                    takes_gen = "Random<" in args or re.search(r"\bRng\b", gen + " " + where) is not None
                    if takes_gen and "self" not in args.split(",")[0]:
                        found.append((rel, header, name, gen, args, where))
    return sorted(found)


def traits():
    impls = []
    marker_decl = None
    for root, _, files in os.walk(os.path.join(REPO, "src")):
        for f in sorted(files):
            if not f.endswith(".rs"):
                continue
            rel = os.path.relpath(os.path.join(root, f), REPO)
            src = strip_comments(open(os.path.join(root, f)).read())
            # impl<generics> [path::]SecureRng for Target [where ...] {
            for m in re.finditer(r"\bimpl\s*(<[^{;]*?>)?\s*(?:[\w:]*::)?SecureRng\s+for\s+([^{;]+?)\s*(?:where\s+([^{;]+?))?\s*\{", src):
                gen = norm(m.group(1) or "")
                impls.append((rel, gen, norm(m.group(2)), norm(m.group(3) or "")))
            m = re.search(r"\bpub\s+(unsafe\s+)?trait\s+SecureRng\s*(:[^{]+)?\{", src)
            if m:
                marker_decl = (rel, norm(m.group(2) or ""))
    # blanket impl: the target is one of the impl's own type parameters
    def is_blanket(gen, target):
        params = [norm(p.split(":")[0]) for p in gen.strip("<>").split(",") if p.strip() and not p.strip().startswith("const ")]
        return norm(target.lstrip("&").replace("mut ", "")) in params
    chacha = strip_comments(open(os.path.join(REPO, "src/rng/chacha.rs")).read())
    m = re.search(r"pub\s+fn\s+from_rng\s*<([^>]*)>\s*\(([^)]*)\)", chacha)
    from_rng_generics = norm(m.group(1)) if m else "MISSING"
    from_rng_args = norm(m.group(2)) if m else "MISSING"
    # where-clause of the from_rng fn, if any
    m2 = re.search(r"pub\s+fn\s+from_rng\s*<[^>]*>\s*\([^)]*\)\s*->\s*[^{]*?where\s+([^{]+)\{", chacha)
    from_rng_where = norm(m2.group(1)) if m2 else ""
    lib = strip_comments(open(os.path.join(REPO, "src/lib.rs")).read())
    rets = []
    for fn in ("new", "seeded", "csprng"):
        m = re.search(r"pub\s+fn\s+%s\s*\([^)]*\)\s*->\s*([^{]+)\{" % fn, lib)
        rets.append((fn, norm(m.group(1)) if m else "MISSING"))
    lines = ["/- GENERATED by tools/extract.py from the current source of /repo on every check - do not edit. -/",
             "namespace Urandom.Generated", "",
             "/-- every `impl … SecureRng for …` in `src/`: (file, generics, target, where-clause, target is a type parameter of the impl) -/",
             "def secureImpls : List (String × String × String × String × Bool) :=", "  ["]
    lines.append(",\n".join("    (%s, %s, %s, %s, %s)" % (lean_str(a), lean_str(b), lean_str(c), lean_str(d), "true" if is_blanket(b, c) else "false") for a, b, c, d in sorted(impls)))
    lines += ["  ]", "",
              "/-- supertraits in the declaration of the marker trait -/",
              "def markerDecl : String × String := (%s, %s)" % (lean_str(marker_decl[0] if marker_decl else "MISSING"), lean_str(marker_decl[1] if marker_decl else "MISSING")), "",
              "/-- generic parameters, arguments and where-clause of `ChaCha::from_rng` -/",
              "def fromRngGenerics : String := %s" % lean_str(from_rng_generics),
              "def fromRngArgs : String := %s" % lean_str(from_rng_args),
              "def fromRngWhere : String := %s" % lean_str(from_rng_where), "",
              "/-- every associated fn of a ChaCha type that takes another generator: (file, impl header, fn, generics, args, where-clause) -/",
              "def chachaSeeders : List (String × String × String × String × String × String) :=",
              "  [" + ",\n   ".join("(%s)" % ", ".join(lean_str(x) for x in t) for t in chacha_seeders()) + "]", "",
              "/-- declared return types of `urandom::new`, `urandom::seeded`, `urandom::csprng` -/",
              "def libReturns : List (String × String) :=",
              "  [" + ", ".join("(%s, %s)" % (lean_str(a), lean_str(b)) for a, b in rets) + "]", "",
              "end Urandom.Generated", ""]
    write_if_changed(os.path.join(OUT, "Traits.lean"), "\n".join(lines))


def simd():
    """the three ChaCha block back ends, translated to register-machine programs (tools/extract_simd.py)"""
    import extract_simd
    try:
        extract_simd.generate(REPO, OUT, write_if_changed)
    except Exception as e:
        # no program: the proof obligation cannot be regenerated; the build fails on the undefined name and the check reports it
        msg = str(e).replace("-/", "- /")
        write_if_changed(os.path.join(OUT, "Simd.lean"), "import Urandom.Model.Simd\n/- tools/extract_simd.py could not translate the current source: %s -/\n"
                         "namespace Urandom.Simd.Gen\nopen Urandom.Simd\ndef slp : Prog := translation_of_the_current_source_failed\n"
                         "def sse2 : Prog := translation_of_the_current_source_failed\ndef avx2 : Prog := translation_of_the_current_source_failed\nend Urandom.Simd.Gen\n" % msg)


def scalar():
    """the scalar cores of the word generators, Float01's packing and the integer sampler, translated to Lean definitions (tools/extract_scalar.py;
    a source it cannot read yields a file that does not build - per group of sources)"""
    import extract_scalar
    extract_scalar.generate(REPO, OUT, write_if_changed)


def effect():
    """`util::rng_fill_bytes` (raw pointer, while loop, generator draws) translated to a Lean definition over a store log (tools/extract_effect.py)"""
    import extract_effect
    extract_effect.generate(REPO, OUT, write_if_changed)
    extract_effect.generate_block_fill(REPO, OUT, write_if_changed)
    extract_effect.generate_system(REPO, OUT, write_if_changed)
    extract_effect.generate_shuffle(REPO, OUT, write_if_changed)


def floats():
    """the parameter logic of Exp / Normal / LogNormal and UniformFloat, translated to Lean definitions over the IEEE model's vocabulary (tools/extract_float.py)"""
    import extract_float
    extract_float.generate(REPO, OUT, write_if_changed)


def glue():
    """the forwarding layer (Random's wrappers, trait defaults, Uniform / Samples / Map, the Rng impls that hand a call on) translated to `do` blocks
    over an arbitrary monad (tools/extract_glue.py)"""
    import extract_glue
    extract_glue.generate(REPO, OUT, write_if_changed)


def main():
    traits()
    sys.path.insert(0, os.path.dirname(os.path.abspath(__file__)))
    simd()
    scalar()
    effect()
    floats()
    glue()
    if os.path.exists(os.path.join(os.path.dirname(os.path.abspath(__file__)), "extract_zig.py")):
        import extract_zig
        extract_zig.tables(REPO, OUT, write_if_changed)


if __name__ == "__main__":
    sys.path.insert(0, os.path.dirname(os.path.abspath(__file__)))
    main()
