//! `word` stream: the word generators under operation histories (C01, C08, C09, C10).
use crate::util::*;
use urandom::rng::{Mock, SplitMix64, Wyrand, Xoshiro256};
use urandom::{Random, Rng};

/// One op of a history, executed on the real generator.

/// fills through the TYPED entry points inside a history: `zfill:k` = `fill_bytes` over k zero-sized elements, `zrb` = `random_bytes::<()>()`
/// (both write nothing and must draw nothing), `tfill:k` = `fill_bytes` over k `u32` elements (4k bytes, shown little-endian per element)
fn typed_fill_op<G: Rng + ?Sized>(r: &mut Random<G>, op: &str) -> Option<R<String>> {
	if op == "zrb" {
		let _: () = r.random_bytes::<()>();
		let _: [u64; 0] = r.random_bytes::<[u64; 0]>();
		return Some(Ok("b:".to_string()));
	}
	if let Some(k) = op.strip_prefix("zfill:") {
		let k: usize = match k.parse() { Ok(k) => k, Err(_) => return Some(Err(Bad)) };
		let mut a = vec![[0u8; 0]; k];
		r.fill_bytes(&mut a[..]);
		let mut b = vec![(); k];
		r.fill_bytes(&mut b[..]);
		return Some(Ok("b:".to_string()));
	}
	// `Random::next::<T>()` (StandardUniform) for the word-sized types: the same output format as the raw draws
	match op {
		"n32" => return Some(Ok(r.next::<u32>().to_string())),
		"ni32" => return Some(Ok((r.next::<i32>() as u32).to_string())),
		"n64" => return Some(Ok(r.next::<u64>().to_string())),
		"ni64" => return Some(Ok((r.next::<i64>() as u64).to_string())),
		"nsz" => return Some(Ok((r.next::<usize>() as u64).to_string())),
		_ => {}
	}
	// distribution entry points inside a history (the words come from the generator's own paths, not from a script)
	if let Some(p) = op.strip_prefix("chance:") {
		let p: u64 = match p.parse() { Ok(p) => p, Err(_) => return Some(Err(Bad)) };
		return Some(Ok(if r.chance(f64::from_bits(p)) { "1" } else { "0" }.to_string()));
	}
	if op == "f01" {
		return Some(Ok(format!("z:{}", r.float01().to_bits())));
	}
	if let Some(n) = op.strip_prefix("idx:") {
		let n: usize = match n.parse() { Ok(n) => n, Err(_) => return Some(Err(Bad)) };
		return Some(Ok(r.index(n).to_string()));
	}
	if let Some(k) = op.strip_prefix("tfill:") {
		let k: usize = match k.parse() { Ok(k) => k, Err(_) => return Some(Err(Bad)) };
		let mut a = vec![0u32; k];
		r.fill_bytes(&mut a[..]);
		let bytes: Vec<u8> = a.iter().flat_map(|w| w.to_ne_bytes()).collect();
		return Some(Ok(format!("b:{}", hex(&bytes))));
	}
	None
}

pub fn run_op<G: Rng + Clone>(r: &mut Random<G>, op: &str) -> R<String> {
	if let Some(res) = typed_fill_op(r, op) {
		return res;
	}
	Ok(match op {
		"u32" => r.next_u32().to_string(),
		"u64" => r.next_u64().to_string(),
		"f32" => format!("f:{}", r.next_f32().to_bits()),
		"f64" => format!("f:{}", r.next_f64().to_bits()),
		"jump" => {
			r.jump();
			"-".to_string()
		}
		"clone" => {
			let mut c = r.clone();
			let a = c.next_u64();
			let b = c.next_u64();
			format!("c:{}:{}", a, b)
		}
		"split" => {
			let mut child = r.split();
			format!("s:{}", child.next_u64())
		}
		// children that draw something else than 64-bit words first (they may still own 1..7 buffered bytes)
		"clone32" => {
			let mut c = r.clone();
			let a = c.next_u32();
			let b = c.next_u32();
			format!("c:{}:{}", a, b)
		}
		"split32" => {
			let mut child = r.split();
			format!("s:{}", child.next_u32())
		}
		_ if op.starts_with("clonef:") || op.starts_with("splitf:") => {
			let n: usize = op[7..].parse().map_err(|_| Bad)?;
			let mut child = if op.starts_with("clonef:") { r.clone() } else { r.split() };
			let mut buf = vec![0u8; n];
			child.fill_bytes(&mut buf[..]);
			format!("{}:{}", if op.starts_with("clonef:") { "cb" } else { "sb" }, hex(&buf))
		}
		_ => {
			let n: usize = op.strip_prefix("fill:").ok_or(Bad)?.parse().map_err(|_| Bad)?;
			// the destination's alignment is part of the input space: start at a length-dependent offset
			let off = (n * 5 + 1) % 8;
			let mut buf = vec![0u8; n + 8];
			r.fill_bytes(&mut buf[off..off + n]);
			format!("b:{}", hex(&buf[off..off + n]))
		}
	})
}

/// the ops that need no `Clone` (generators such as `System<N>`)
pub fn run_op_noclone<G: Rng>(r: &mut Random<G>, op: &str) -> R<String> {
	if let Some(res) = typed_fill_op(r, op) {
		return res;
	}
	Ok(match op {
		"u32" => r.next_u32().to_string(),
		"u64" => r.next_u64().to_string(),
		"f32" => format!("f:{}", r.next_f32().to_bits()),
		"f64" => format!("f:{}", r.next_f64().to_bits()),
		"jump" => {
			r.jump();
			"-".to_string()
		}
		"clone" | "split" => return Err(Bad),
		_ => {
			let n: usize = op.strip_prefix("fill:").ok_or(Bad)?.parse().map_err(|_| Bad)?;
			let off = (n * 5 + 1) % 8;
			let mut buf = vec![0u8; n + 8];
			r.fill_bytes(&mut buf[off..off + n]);
			format!("b:{}", hex(&buf[off..off + n]))
		}
	})
}

pub fn run_ops<G: Rng + Clone>(r: &mut Random<G>, ops: &[&str]) -> R<Vec<String>> {
	ops.iter().map(|op| run_op(r, op)).collect()
}

fn finish<G: Rng + Clone + serde::Serialize>(mut r: Random<G>, ops: &[&str]) -> R<String> {
	let mut out = run_ops(&mut r, ops)?;
	let js = serde_json::to_string(&r).map_err(|_| Bad)?;
	out.push(format!("st:{}", join(&json_numbers(&js), ",")));
	Ok(out.join(" "))
}

pub fn word(req: &Req) -> R<String> {
	let ops = req.strs("ops");
	let via = req.opt("via").unwrap_or("from_seed");
	match req.get("gen")? {
		"xoshiro" => {
			if let Some(st) = req.opt_list_u64("state")? {
				if st.len() != 4 {
					return Err(Bad);
				}
				let r: Random<Xoshiro256> = match via {
					"serde" | "from_seed" => serde_json::from_str(&format!("{{\"state\":[{}]}}", join(&st, ","))).map_err(|_| Bad)?,
					"from_rng" => Xoshiro256::from_rng(&mut Mock::slice(&st)),
					_ => return Err(Bad),
				};
				finish(r, &ops)
			} else {
				let seed = req.u64("seed")?;
				match via {
					"from_seed" => finish(Xoshiro256::from_seed(seed), &ops),
					"seeded" => {
						// `urandom::seeded` returns an opaque `impl Rng + Clone`: no state read-back;
						// the state is taken from an identically seeded Xoshiro256 run through the same ops
						// only on the model side - here we print the outputs and a second, independent run's state.
						let mut r = urandom::seeded(seed);
						let mut out = run_ops(&mut r, &ops)?;
						let mut twin = Xoshiro256::from_seed(seed);
						run_ops(&mut twin, &ops)?;
						let js = serde_json::to_string(&twin).map_err(|_| Bad)?;
						out.push(format!("st:{}", join(&json_numbers(&js), ",")));
						Ok(out.join(" "))
					}
					_ => Err(Bad),
				}
			}
		}
		"splitmix" => {
			let seed = req.u64("seed")?;
			match via {
				"from_seed" => finish(SplitMix64::from_seed(seed), &ops),
				"from_rng" => finish(SplitMix64::from_rng(&mut Mock::slice(&[seed])), &ops),
				"serde" => finish(serde_json::from_str::<Random<SplitMix64>>(&format!("{{\"state\":{}}}", seed)).map_err(|_| Bad)?, &ops),
				_ => Err(Bad),
			}
		}
		"wyrand" => {
			let seed = req.u64("seed")?;
			match via {
				"from_seed" => finish(Wyrand::from_seed(seed), &ops),
				"from_rng" => finish(Wyrand::from_rng(&mut Mock::slice(&[seed])), &ops),
				"serde" => finish(serde_json::from_str::<Random<Wyrand>>(&format!("{{\"state\":{}}}", seed)).map_err(|_| Bad)?, &ops),
				_ => Err(Bad),
			}
		}
		_ => Err(Bad),
	}
}
