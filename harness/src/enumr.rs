//! Complete enumeration of small draw spaces on the implementation (C05, C06, C07 violation search).
//!
//! Every draw ranges over a uniform grid of `grid` words whose two 32-bit halves both equal the 32-bit midpoint
//! `g_t = floor((2t+1)·2^32 / (2·grid))`: `w_t = g_t·(2^32+1)`. For an index range `r` that divides `grid`, a multiply-shift
//! sampler with rejection gives `floor(t·r / grid)` and accepts `w_t`, whether it works on the 64-bit word, on its high half or
//! on its low half (the midpoints stay `1/(2·grid/r)` away from every bucket boundary, far more than any rejection zone), so
//! the grid realises every index value exactly `grid / r` times: counting outcomes over the grid is then exact counting over
//! uniformly distributed draws - also for an implementation that draws narrower indices from 32-bit words.
use crate::mockutil::*;
use crate::util::*;
use std::collections::BTreeMap;

fn grid_word(t: u64, grid: u64) -> u64 {
	let g = (((2 * t as u128 + 1) << 32) / (2 * grid as u128)) as u64;
	g << 32 | g
}

pub fn enumerate(req: &Req) -> R<String> {
	let kind = req.get("kind")?;
	let n = req.usize("n")?;
	let k = req.usize("k")?;
	let grid = req.u64("grid")?;
	let draws = req.usize("draws")?;
	let hint = req.opt("hint");
	if grid == 0 || (grid as f64).powi(draws as i32) > 5e7 {
		return Err(Bad);
	}
	let mut counts: BTreeMap<String, u64> = BTreeMap::new();
	let mut idx = vec![0u64; draws];
	let mut words = vec![0u64; draws];
	loop {
		for i in 0..draws {
			words[i] = grid_word(idx[i], grid);
		}
		let items: Vec<u64> = (0..n as u64).collect();
		let outcome = match kind {
			"shuf" => {
				let mut a = items.clone();
				match with_mock(&words, |r| r.shuffle(&mut a[..])) {
					Some(_) => join(&a, ","),
					None => "panic".into(),
				}
			}
			"pshuf" => {
				let mut a = items.clone();
				match with_mock(&words, |r| r.partial_shuffle(&mut a[..], k)) {
					// the property is about the first min(k, n) positions
					Some(_) => join(&a[..usize::min(k, n)], ","),
					None => "panic".into(),
				}
			}
			"multi" => {
				let mut buf = vec![u64::MAX; k];
				let res = match hint {
					None => with_mock(&words, |r| r.multiple(items.iter().copied(), &mut buf[..])),
					h => with_mock(&words, |r| r.multiple(crate::distr::hinted(&items, h), &mut buf[..])),
				};
				match res {
					Some((cnt, _)) => {
						let mut s: Vec<u64> = buf[..cnt].to_vec();
						s.sort();
						join(&s, ",")
					}
					None => "panic".into(),
				}
			}
			"choose" => match with_mock(&words, |r| r.choose(&items[..]).copied()) {
				Some((Some(v), _)) => v.to_string(),
				Some((None, _)) => "none".into(),
				None => "panic".into(),
			},
			"single" => match match hint {
				None => with_mock(&words, |r| r.single(items.iter().copied())),
				h => with_mock(&words, |r| r.single(crate::distr::hinted(&items, h))),
			} {
				Some((Some(v), _)) => v.to_string(),
				Some((None, _)) => "none".into(),
				None => "panic".into(),
			},
			"index" => match with_mock(&words, |r| r.index(n)) {
				Some((v, _)) => v.to_string(),
				None => "panic".into(),
			},
			_ => return Err(Bad),
		};
		*counts.entry(outcome).or_insert(0) += 1;
		// next tuple
		let mut i = 0;
		loop {
			if i == draws {
				let parts: Vec<String> = counts.iter().map(|(k, v)| format!("{}={}", k, v)).collect();
				return Ok(parts.join(";"));
			}
			idx[i] += 1;
			if idx[i] < grid {
				break;
			}
			idx[i] = 0;
			i += 1;
		}
	}
}

/// A generator that hands out a fixed short list of words and counts how many were taken (no allocation, no unwinding: for the
/// exhaustive loops below). Runs dry into all-ones words (counted).
struct Few {
	w: [u64; 4],
	i: usize,
}
impl urandom::Rng for Few {
	fn next_u32(&mut self) -> u32 {
		self.next_u64() as u32
	}
	fn next_u64(&mut self) -> u64 {
		let v = if self.i < 4 { self.w[self.i] } else { !0 };
		self.i += 1;
		v
	}
	fn fill_bytes(&mut self, buf: &mut [std::mem::MaybeUninit<u8>]) {
		for b in buf.iter_mut() {
			b.write(self.next_u64() as u8);
		}
	}
	fn jump(&mut self) {}
}

/// `enum32 kind=alnum lo=<a> hi=<b> second=<w>`: the Alnum sample for EVERY first 32-bit word in `[lo, hi)` followed by the word `second`
/// (and then zeros): how often each (character, words consumed) pair occurs. Exhaustive counting, implementation only.
pub fn enum32(req: &Req) -> R<String> {
	use urandom::distr::Alnum;
	use urandom::Distribution;
	let lo = req.u64("lo")?;
	let hi = req.u64("hi")?;
	let second = req.u64("second")?;
	if req.get("kind")? != "alnum" || hi > 1 << 32 || lo > hi {
		return Err(Bad);
	}
	let mut counts = vec![0u64; 256 * 5];
	for w in lo..hi {
		let mut few = Few { w: [w, second, 0, 0], i: 0 };
		// `Random<R>` is `#[repr(transparent)]` over `R` (its constructor is crate-private)
		let r: &mut urandom::Random<Few> = unsafe { &mut *(&mut few as *mut Few as *mut urandom::Random<Few>) };
		let c: char = Alnum.sample(r);
		let used = usize::min(few.i, 4);
		counts[(c as usize & 255) * 5 + used] += 1;
	}
	let mut parts = Vec::new();
	for (k, &n) in counts.iter().enumerate() {
		if n > 0 {
			parts.push(format!("{}:{}={}", k / 5, k % 5, n));
		}
	}
	Ok(parts.join(";"))
}

/// `bigshuf n=<len> m=<amount> words=..`: `partial_shuffle(slice, m)` on a slice of `n` bytes (`n` beyond 2^32: the memory is
/// calloc'ed and only the touched pages become real), with the first `m` elements marked 1..m; answers where the marks ended up
/// (`ok:<pos of 1>,<pos of 2>,..:<words consumed>`). The slice lengths around 2^32 are part of "all slice lengths".
pub fn bigshuf(req: &Req) -> R<String> {
	let n = req.usize("n")?;
	let m = req.usize("m")?;
	let words = req.list_u64("words")?;
	if n > (1usize << 33) + 4096 || m > 8 || m > n {
		return Err(Bad);
	}
	let mut v = vec![0u8; n];
	for i in 0..m {
		v[i] = (i + 1) as u8;
	}
	let res = with_mock(&words, |r| r.partial_shuffle(&mut v[..], m));
	Ok(match res {
		None => "panic".into(),
		Some((_, c)) => {
			let mut pos = vec![usize::MAX; m];
			let mut found = 0;
			// 64 bits at a time: almost everything is zero
			let (pre, mid, post) = unsafe { v.align_to::<u64>() };
			let mut note = |i: usize, b: u8| {
				if b != 0 {
					pos[(b - 1) as usize] = i;
					found += 1;
				}
			};
			for (i, &b) in pre.iter().enumerate() {
				note(i, b);
			}
			for (j, &w) in mid.iter().enumerate() {
				if w != 0 {
					for (t, b) in w.to_ne_bytes().iter().enumerate() {
						note(pre.len() + j * 8 + t, *b);
					}
				}
			}
			for (i, &b) in post.iter().enumerate() {
				note(pre.len() + mid.len() * 8 + i, b);
			}
			let _ = found;
			format!("ok:{}:{}", join(&pos, ","), c)
		}
	})
}
