//! `serde` stream (C19): serialise a generator at a point of a history, restore it, run the same
//! continuation on both, re-serialise.  `serdist`: distribution objects round-trip (harness-side oracle).
use crate::mockutil::*;
use crate::util::*;
use crate::word::run_ops;
use serde::{de::DeserializeOwned, Serialize};
use urandom::distr::*;
use urandom::rng::{ChaCha, SecureRng, SplitMix64, Wyrand, Xoshiro256};
use urandom::{Distribution, Random, Rng};

fn round<G>(mut r: Random<G>, before: &[&str], after: &[&str]) -> R<String>
where
	G: Rng + Clone + Serialize + DeserializeOwned,
{
	let o1 = run_ops(&mut r, before)?;
	let j1 = serde_json::to_string(&r).map_err(|_| Bad)?;
	let mut restored: Random<G> = serde_json::from_str(&j1).map_err(|_| Bad)?;
	let o2 = run_ops(&mut r, after)?;
	let o3 = run_ops(&mut restored, after)?;
	let j2 = serde_json::to_string(&r).map_err(|_| Bad)?;
	let j3 = serde_json::to_string(&restored).map_err(|_| Bad)?;
	Ok([j1, o1.join(" "), o2.join(" "), o3.join(" "), j2, j3].join(" | "))
}

fn chacha_gen<const N: usize>(req: &Req) -> R<Random<ChaCha<N>>>
where
	ChaCha<N>: SecureRng,
{
	if let Some(seed) = req.opt_u64("seed")? {
		return Ok(ChaCha::<N>::from_seed(seed));
	}
	let key = req.list_u64("key")?;
	if key.len() != 8 {
		return Err(Bad);
	}
	let (ctr, st) = (req.u64("ctr")?, req.u64("str")?);
	let mut words: Vec<u64> = key;
	words.extend([ctr & 0xffff_ffff, ctr >> 32, st & 0xffff_ffff, st >> 32]);
	let mut s = format!("{{\"state\":[{}]", join(&words, ","));
	if let Some(i) = req.opt_u64("idx")? {
		s.push_str(&format!(",\"index\":{}", i));
	}
	if let Some(h) = req.opt("buf") {
		let b = unhex(h)?;
		if b.len() != 256 {
			return Err(Bad);
		}
		let rows: Vec<String> = (0..4)
			.map(|r| {
				let ws: Vec<u32> = (0..16).map(|c| u32::from_le_bytes(b[(r * 16 + c) * 4..(r * 16 + c) * 4 + 4].try_into().unwrap())).collect();
				format!("[{}]", join(&ws, ","))
			})
			.collect();
		s.push_str(&format!(",\"random\":[{}]", rows.join(",")));
	}
	s.push('}');
	serde_json::from_str(&s).map_err(|_| Bad)
}

pub fn serde(req: &Req) -> R<String> {
	let before = req.strs("before");
	let after = req.strs("after");
	match req.get("gen")? {
		"xoshiro" => {
			let r: Random<Xoshiro256> = match req.opt_list_u64("state")? {
				// the state is injected WITHOUT going through the code under test (deserialisation): from_rng copies the source's words
				Some(st) => {
					if st.len() != 4 {
						return Err(Bad);
					}
					Xoshiro256::from_rng(&mut urandom::rng::Mock::slice(&st))
				}
				None => Xoshiro256::from_seed(req.u64("seed")?),
			};
			round(r, &before, &after)
		}
		"splitmix" => round(SplitMix64::from_seed(req.u64("seed")?), &before, &after),
		"wyrand" => round(Wyrand::from_seed(req.u64("seed")?), &before, &after),
		"chacha" => match req.u64("n")? {
			8 => round(chacha_gen::<8>(req)?, &before, &after),
			12 => round(chacha_gen::<12>(req)?, &before, &after),
			20 => round(chacha_gen::<20>(req)?, &before, &after),
			_ => Err(Bad),
		},
		_ => Err(Bad),
	}
}

/// distribution round trip: `to_string`, `from_str`, `to_string` again, and identical samples on the same words
fn dist_rt<T: PartialEq + std::fmt::Debug, D: Distribution<T> + Serialize + DeserializeOwned>(d: &D, words: &[u64], n: usize, bits: impl Fn(&T) -> u128) -> String {
	let j1 = match serde_json::to_string(d) {
		Ok(j) => j,
		Err(e) => return format!("MISMATCH serialize failed: {}", e),
	};
	let d2: D = match serde_json::from_str(&j1) {
		Ok(d) => d,
		Err(e) => return format!("MISMATCH deserialize failed on {}: {}", j1, e),
	};
	let j2 = serde_json::to_string(&d2).unwrap_or_default();
	if j1 != j2 {
		return format!("MISMATCH re-serialised text differs: {} vs {}", j1, j2);
	}
	let a = with_mock(words, |r| (0..n).map(|_| bits(&d.sample(r))).collect::<Vec<u128>>());
	let b = with_mock(words, |r| (0..n).map(|_| bits(&d2.sample(r))).collect::<Vec<u128>>());
	if a != b {
		return format!("MISMATCH samples differ after round trip of {}: {:?} vs {:?}", j1, a, b);
	}
	format!("ok {}", j1)
}

pub fn serdist(req: &Req) -> R<String> {
	let words = req.list_u64("words")?;
	let n = req.usize("n")?;
	let a = req.opt_u64("a")?.unwrap_or(0);
	let b = req.opt_u64("b")?.unwrap_or(0);
	macro_rules! uni_int {
		($ty:ty) => {{
			let lo = req.i128("lo")? as $ty;
			let hi = req.i128("hi")? as $ty;
			match Uniform::<$ty>::try_new_inclusive(lo, hi) {
				Ok(d) => dist_rt::<$ty, _>(&d, &words, n, |v| *v as u128),
				Err(_) => "ok empty".to_string(),
			}
		}};
	}
	Ok(match req.get("kind")? {
		"i8" => uni_int!(i8),
		"u8" => uni_int!(u8),
		"i16" => uni_int!(i16),
		"u16" => uni_int!(u16),
		"i32" => uni_int!(i32),
		"u32" => uni_int!(u32),
		"i64" => uni_int!(i64),
		"u64" => uni_int!(u64),
		"isize" => uni_int!(isize),
		"usize" => uni_int!(usize),
		"uf32" => match Uniform::<f32>::try_new(f32::from_bits(a as u32), f32::from_bits(b as u32)) {
			Ok(d) => dist_rt::<f32, _>(&d, &words, n, |v| v.to_bits() as u128),
			Err(_) => "ok rejected".to_string(),
		},
		"uf64" => match Uniform::<f64>::try_new(f64::from_bits(a), f64::from_bits(b)) {
			Ok(d) => dist_rt::<f64, _>(&d, &words, n, |v| v.to_bits() as u128),
			Err(_) => "ok rejected".to_string(),
		},
		"bern" => dist_rt::<bool, _>(&Bernoulli::new(f64::from_bits(a)), &words, n, |v| *v as u128),
		"exp32" => match Exp::<f32>::try_new(f32::from_bits(a as u32)) {
			Ok(d) => dist_rt::<f32, _>(&d, &words, n, |v| v.to_bits() as u128),
			Err(_) => "ok rejected".to_string(),
		},
		"exp64" => match Exp::<f64>::try_new(f64::from_bits(a)) {
			Ok(d) => dist_rt::<f64, _>(&d, &words, n, |v| v.to_bits() as u128),
			Err(_) => "ok rejected".to_string(),
		},
		"norm32" => match Normal::<f32>::try_new(f32::from_bits(a as u32), f32::from_bits(b as u32)) {
			Ok(d) => dist_rt::<f32, _>(&d, &words, n, |v| v.to_bits() as u128),
			Err(_) => "ok rejected".to_string(),
		},
		"norm64" => match Normal::<f64>::try_new(f64::from_bits(a), f64::from_bits(b)) {
			Ok(d) => dist_rt::<f64, _>(&d, &words, n, |v| v.to_bits() as u128),
			Err(_) => "ok rejected".to_string(),
		},
		"lnorm32" => match LogNormal::<f32>::try_new(f32::from_bits(a as u32), f32::from_bits(b as u32)) {
			Ok(d) => dist_rt::<f32, _>(&d, &words, n, |v| v.to_bits() as u128),
			Err(_) => "ok rejected".to_string(),
		},
		"lnorm64" => match LogNormal::<f64>::try_new(f64::from_bits(a), f64::from_bits(b)) {
			Ok(d) => dist_rt::<f64, _>(&d, &words, n, |v| v.to_bits() as u128),
			Err(_) => "ok rejected".to_string(),
		},
		"dice" => dist_rt::<i32, _>(&Dice::new(u8::max(1, a as u8)), &words, n, |v| *v as u128),
		"std" => dist_rt::<u64, _>(&StandardUniform, &words, n, |v| *v as u128),
		"alnum" => dist_rt::<char, _>(&Alnum, &words, n, |v| *v as u128),
		"float01" => dist_rt::<f64, _>(&Float01, &words, n, |v| v.to_bits() as u128),
		"exp1" => dist_rt::<f64, _>(&Exp1, &words, n, |v| v.to_bits() as u128),
		"stdnorm" => dist_rt::<f64, _>(&StandardNormal, &words, n, |v| v.to_bits() as u128),
		_ => return Err(Bad),
	})
}
