//! Floating-point streams (C12, C14-C16): `fp` (hardware IEEE ops, validates the software model),
//! `ufloat`, `expd`, `norm`, `lnorm`, `zig`.
use crate::mockutil::*;
use crate::util::*;
use urandom::distr::*;
use urandom::Distribution;

fn s64(x: f64) -> String {
	if x.is_nan() {
		"nan".into()
	} else {
		x.to_bits().to_string()
	}
}
fn s32(x: f32) -> String {
	if x.is_nan() {
		"nan".into()
	} else {
		x.to_bits().to_string()
	}
}

pub fn fp(req: &Req) -> R<String> {
	let op = req.get("op")?;
	let w = req.u64("w")?;
	let a = req.u64("a")?;
	let b = req.opt_u64("b")?.unwrap_or(0);
	let c = req.opt_u64("c")?.unwrap_or(0);
	let bl = |x: bool| (x as u8).to_string();
	if w == 64 {
		let (x, y, z) = (f64::from_bits(a), f64::from_bits(b), f64::from_bits(c));
		Ok(match op {
			"add" => s64(x + y),
			"sub" => s64(x - y),
			"mul" => s64(x * y),
			"div" => s64(x / y),
			"fma" => s64(x.mul_add(y, z)),
			"sqrt" => s64(x.sqrt()),
			"exp" => s64(x.exp()),
			"ln" => s64(x.ln()),
			"lt" => bl(x < y),
			"le" => bl(x <= y),
			"eq" => bl(x == y),
			"finite" => bl(x.is_finite()),
			"cvt" => s32(x as f32),
			"ofnat" => s64(a as f64),
			_ => return Err(Bad),
		})
	} else if w == 32 {
		let (x, y, z) = (f32::from_bits(a as u32), f32::from_bits(b as u32), f32::from_bits(c as u32));
		Ok(match op {
			"add" => s32(x + y),
			"sub" => s32(x - y),
			"mul" => s32(x * y),
			"div" => s32(x / y),
			"fma" => s32(x.mul_add(y, z)),
			"sqrt" => s32(x.sqrt()),
			"exp" => s32(x.exp()),
			"ln" => s32(x.ln()),
			"lt" => bl(x < y),
			"le" => bl(x <= y),
			"eq" => bl(x == y),
			"finite" => bl(x.is_finite()),
			"ofnat" => s32(a as f32),
			_ => return Err(Bad),
		})
	} else {
		Err(Bad)
	}
}

fn ok_list(v: Option<(Vec<String>, usize)>) -> String {
	match v {
		Some((v, c)) => format!("ok:{}:{}", v.join(","), c),
		None => "panic".into(),
	}
}

pub fn ufloat(req: &Req) -> R<String> {
	let w = req.u64("w")?;
	let n = req.usize("n")?;
	let via = req.get("via")?;
	let words = req.list_u64("words")?;
	macro_rules! go {
		($t:ty, $from:expr, $show:ident) => {{
			let lo: $t = $from(req.u64("lo")?);
			let hi: $t = $from(req.u64("hi")?);
			match via {
				"try" | "incl" => {
					let d = if via == "incl" { Uniform::<$t>::try_new_inclusive(lo, hi) } else { Uniform::<$t>::try_new(lo, hi) };
					match d {
						Err(e) => format!("err:{:?}", e),
						Ok(d) => ok_list(with_mock(&words, |r| draw(r, &d, n).into_iter().map(|x| $show(x)).collect())),
					}
				}
				"new" => ok_list(with_mock(&words, |r| {
					let d = Uniform::<$t>::new(lo, hi);
					draw(r, &d, n).into_iter().map(|x| $show(x)).collect()
				})),
				"range" => ok_list(with_mock(&words, |r| (0..n).map(|_| $show(r.range(lo..hi))).collect())),
				_ => return Err(Bad),
			}
		}};
	}
	Ok(if w == 64 { go!(f64, |b: u64| f64::from_bits(b), s64) } else { go!(f32, |b: u64| f32::from_bits(b as u32), s32) })
}

pub fn expd(req: &Req) -> R<String> {
	let w = req.u64("w")?;
	let n = req.usize("n")?;
	let via = req.get("via")?;
	let words = req.list_u64("words")?;
	macro_rules! go {
		($t:ty, $from:expr, $show:ident) => {{
			let lam: $t = $from(req.u64("lambda")?);
			match via {
				"try" => match Exp::<$t>::try_new(lam) {
					Err(e) => format!("err:{:?}", e),
					Ok(d) => ok_list(with_mock(&words, |r| draw(r, &d, n).into_iter().map(|x| $show(x)).collect())),
				},
				_ => ok_list(with_mock(&words, |r| {
					let d = Exp::<$t>::new(lam);
					draw(r, &d, n).into_iter().map(|x| $show(x)).collect()
				})),
			}
		}};
	}
	Ok(if w == 64 { go!(f64, |b: u64| f64::from_bits(b), s64) } else { go!(f32, |b: u64| f32::from_bits(b as u32), s32) })
}

pub fn norm(req: &Req, logn: bool) -> R<String> {
	let w = req.u64("w")?;
	let n = req.usize("n")?;
	let via = req.get("via")?;
	let ctor = req.get("ctor")?;
	let words = req.list_u64("words")?;
	let z = req.opt_u64("z")?;
	macro_rules! run {
		($d:expr, $t:ty, $from:expr, $show:ident, $params:expr) => {{
			let d = $d;
			let params: String = $params(&d);
			match z {
				Some(zb) => format!("{} z:{}", params, $show(d.from_zscore($from(zb)))),
				None => format!("{} {}", params, ok_list(with_mock(&words, |r| draw(r, &d, n).into_iter().map(|x| $show(x)).collect()))),
			}
		}};
	}
	macro_rules! go {
		($t:ty, $from:expr, $show:ident) => {{
			let a: $t = $from(req.u64("a")?);
			let b: $t = $from(req.u64("b")?);
			if !logn {
				let res = if ctor == "cv" { Normal::<$t>::try_from_mean_cv(a, b) } else { Normal::<$t>::try_new(a, b) };
				match (res, via) {
					(Err(e), "try") => format!("err:{:?}", e),
					(Err(_), _) => {
						// the panicking constructors must panic exactly here
						let p = std::panic::catch_unwind(|| if ctor == "cv" { Normal::<$t>::from_mean_cv(a, b) } else { Normal::<$t>::new(a, b) });
						if p.is_err() { "panic".to_string() } else { "NO-PANIC".to_string() }
					}
					(Ok(d), _) => run!(d, $t, $from, $show, |d: &Normal<$t>| format!("p:{},{}", $show(d.mean()), $show(d.std_dev()))),
				}
			} else {
				let res = if ctor == "cv" { LogNormal::<$t>::try_from_mean_cv(a, b) } else { LogNormal::<$t>::try_new(a, b) };
				match (res, via) {
					(Err(e), "try") => format!("err:{:?}", e),
					(Err(_), _) => {
						let p = std::panic::catch_unwind(|| if ctor == "cv" { LogNormal::<$t>::from_mean_cv(a, b) } else { LogNormal::<$t>::new(a, b) });
						if p.is_err() { "panic".to_string() } else { "NO-PANIC".to_string() }
					}
					(Ok(d), _) => {
						// the inner Normal's parameters are visible through serde
						let js = serde_json::to_value(&d).map_err(|_| Bad)?;
						let g = |k: &str| js.get("norm").and_then(|n| n.get(k)).and_then(|v| v.as_f64());
						let pm = match (g("mean"), g("std_dev")) {
							(Some(m), Some(s)) => format!("p:{},{}", $show(m as $t), $show(s as $t)),
							_ => "p:?".to_string(),   // non-finite parameters are not representable in JSON
						};
						run!(d, $t, $from, $show, |_d: &LogNormal<$t>| pm.clone())
					}
				}
			}
		}};
	}
	Ok(if w == 64 { go!(f64, |b: u64| f64::from_bits(b), s64) } else { go!(f32, |b: u64| f32::from_bits(b as u32), s32) })
}

pub fn zig(req: &Req) -> R<String> {
	let w = req.u64("w")?;
	let n = req.usize("n")?;
	let words = req.list_u64("words")?;
	Ok(match (req.get("kind")?, w) {
		("norm", 64) => ok_list(with_mock(&words, |r| draw::<f64, _>(r, &StandardNormal, n).into_iter().map(s64).collect())),
		("norm", 32) => ok_list(with_mock(&words, |r| draw::<f32, _>(r, &StandardNormal, n).into_iter().map(s32).collect())),
		("exp", 64) => ok_list(with_mock(&words, |r| draw::<f64, _>(r, &Exp1, n).into_iter().map(s64).collect())),
		("exp", 32) => ok_list(with_mock(&words, |r| draw::<f32, _>(r, &Exp1, n).into_iter().map(s32).collect())),
		_ => return Err(Bad),
	})
}

/// `urange`: uniform float ranges sampled under REAL generators after a pre-history (C12: the bounds must hold whatever generator and
/// whatever buffer position the unit float comes from); even samples through a stored `Uniform`, odd ones through `Random::range`
pub fn urange(req: &Req) -> R<String> {
	use urandom::rng::{ChaCha12, ChaCha20, ChaCha8, SplitMix64, Wyrand, Xoshiro256};
	let w = req.u64("w")?;
	let n = req.usize("n")?;
	let pre = req.strs("pre");
	let seed = req.opt_u64("seed")?.unwrap_or(0);
	let lo = req.u64("lo")?;
	let hi = req.u64("hi")?;
	fn run<G: urandom::Rng>(mut r: urandom::Random<G>, pre: &[&str], w: u64, lo: u64, hi: u64, n: usize) -> R<String> {
		for op in pre {
			crate::word::run_op_noclone(&mut r, op)?;
		}
		let out: Vec<String> = if w == 64 {
			let (lo, hi) = (f64::from_bits(lo), f64::from_bits(hi));
			let d = Uniform::<f64>::try_new(lo, hi).map_err(|_| Bad)?;
			(0..n).map(|i| if i % 2 == 0 { r.sample(&d) } else { r.range(lo..hi) }.to_bits().to_string()).collect()
		} else {
			let (lo, hi) = (f32::from_bits(lo as u32), f32::from_bits(hi as u32));
			let d = Uniform::<f32>::try_new(lo, hi).map_err(|_| Bad)?;
			(0..n).map(|i| if i % 2 == 0 { r.sample(&d) } else { r.range(lo..hi) }.to_bits().to_string()).collect()
		};
		Ok(format!("ok:{}", out.join(",")))
	}
	match req.get("gen")? {
		"xoshiro" if req.opt("state").is_some() => {
			let st = req.opt_list_u64("state")?.ok_or(Bad)?;
			let r: urandom::Random<Xoshiro256> = serde_json::from_str(&format!("{{\"state\":[{}]}}", join(&st, ","))).map_err(|_| Bad)?;
			run(r, &pre, w, lo, hi, n)
		}
		"xoshiro" => run(Xoshiro256::from_seed(seed), &pre, w, lo, hi, n),
		"splitmix" => run(SplitMix64::from_seed(seed), &pre, w, lo, hi, n),
		"wyrand" => run(Wyrand::from_seed(seed), &pre, w, lo, hi, n),
		"chacha8" => run(ChaCha8::from_seed(seed), &pre, w, lo, hi, n),
		"chacha12" => run(ChaCha12::from_seed(seed), &pre, w, lo, hi, n),
		"chacha20" => run(ChaCha20::from_seed(seed), &pre, w, lo, hi, n),
		_ => Err(Bad),
	}
}
