//! Correspondence harness: executes request lines against the real `urandom` crate built from
//! /repo's working tree.  `uharness run` reads one request per line on stdin and prints one
//! result line per request (`panic` if the call panicked, `bad-request` if unparsable).
mod chacha;
mod distr;
mod entropy;
mod enumr;
mod stat;
mod fills;
mod floats;
mod mockutil;
mod readmock;
mod serde_rt;
mod util;
mod word;

use std::io::{self, BufRead, Write};
use std::panic;
use util::*;

fn dispatch(req: &Req) -> R<String> {
	mockutil::PATH.with(|p| *p.borrow_mut() = req.opt("path").unwrap_or("").to_string());
	match req.kind {
		"word" => word::word(req),
		"uint" => distr::uint(req),
		"index" => distr::index(req),
		"dice" => distr::dice(req),
		"shuf" => distr::shuf(req),
		"pshuf" => distr::pshuf(req),
		"choose" => distr::choose(req),
		"single" => distr::single(req),
		"multi" => distr::multi(req),
		"alnum" => distr::alnum(req),
		"f01" => distr::f01(req),
		"bern" => distr::bern(req),
		"std" => distr::std(req),
		"enum" => enumr::enumerate(req),
		"enum32" => enumr::enum32(req),
		"bigshuf" => enumr::bigshuf(req),
		"stat" => stat::stat(req),
		"statd" => stat::statd(req),
		"zstat" => stat::zstat(req),
		"zfind" => stat::zfind(req),
		"seedfind" => stat::seedfind(req),
		"bigfill" => stat::bigfill(req),
		"bigmulti" => stat::bigmulti(req),
		"bigsingle" => stat::bigsingle(req),
		"chacha" => chacha::chacha(req),
		"slpblock" => chacha::slpblock(req),
		"serde" => serde_rt::serde(req),
		"fillb" => fills::fillb(req),
		"read" => readmock::read(req),
		"mock" => readmock::mock(req),
		"system" => entropy::system(req),
		"fp" => floats::fp(req),
		"ufloat" => floats::ufloat(req),
		"urange" => floats::urange(req),
		"expd" => floats::expd(req),
		"norm" => floats::norm(req, false),
		"lnorm" => floats::norm(req, true),
		"zig" => floats::zig(req),
		"newgen" => entropy::newgen(req),
		"serdist" => serde_rt::serdist(req),
		_ => Err(Bad),
	}
}

fn answer(line: &str) -> String {
	let Some(req) = Req::parse(line) else { return "bad-request".into() };
	mockutil::WLEFT.with(|w| w.set(0));
	match panic::catch_unwind(panic::AssertUnwindSafe(|| dispatch(&req))) {
		Ok(Ok(s)) if s == "panic" && mockutil::WLEFT.with(|w| w.get()) > 0 => format!("panic wleft={}", mockutil::WLEFT.with(|w| w.get())),
		Ok(Ok(s)) => s,
		Ok(Err(Bad)) => "bad-request".into(),
		Err(_) => "panic".into(),
	}
}

fn main() {
	panic::set_hook(Box::new(|_| {}));
	let args: Vec<String> = std::env::args().collect();
	match args.get(1).map(|s| s.as_str()) {
		Some(mode @ ("run" | "interactive")) => {
			// `interactive`: answer and flush line by line (used by the binary-search oracles)
			let stdin = io::stdin();
			let stdout = io::stdout();
			let mut out = io::BufWriter::new(stdout.lock());
			for line in stdin.lock().lines() {
				let line = line.unwrap();
				let _ = writeln!(out, "{}", answer(&line));
				if mode == "interactive" {
					let _ = out.flush();
				}
			}
			let _ = out.flush();
		}
		_ => {
			eprintln!("usage: uharness run < requests");
			std::process::exit(2);
		}
	}
}
