//! Request parsing and output helpers shared by all streams.
use std::fmt::Write as _;

pub struct Req<'a> {
	pub kind: &'a str,
	pub kv: Vec<(&'a str, &'a str)>,
}

/// A request that cannot be parsed is answered `bad-request` (never defaulted).
pub struct Bad;
pub type R<T> = Result<T, Bad>;

impl<'a> Req<'a> {
	pub fn parse(line: &'a str) -> Option<Req<'a>> {
		let mut it = line.trim().split(' ').filter(|s| !s.is_empty());
		let kind = it.next()?;
		let mut kv = Vec::new();
		for t in it {
			let (k, v) = t.split_once('=')?;
			kv.push((k, v));
		}
		Some(Req { kind, kv })
	}
	pub fn opt(&self, k: &str) -> Option<&'a str> {
		self.kv.iter().find(|(kk, _)| *kk == k).map(|(_, v)| *v)
	}
	pub fn get(&self, k: &str) -> R<&'a str> {
		self.opt(k).ok_or(Bad)
	}
	pub fn u64(&self, k: &str) -> R<u64> {
		self.get(k)?.parse::<u64>().map_err(|_| Bad)
	}
	pub fn u128(&self, k: &str) -> R<u128> {
		self.get(k)?.parse::<u128>().map_err(|_| Bad)
	}
	pub fn i128(&self, k: &str) -> R<i128> {
		self.get(k)?.parse::<i128>().map_err(|_| Bad)
	}
	pub fn usize(&self, k: &str) -> R<usize> {
		self.get(k)?.parse::<usize>().map_err(|_| Bad)
	}
	pub fn opt_u64(&self, k: &str) -> R<Option<u64>> {
		match self.opt(k) {
			None => Ok(None),
			Some(v) => v.parse::<u64>().map(Some).map_err(|_| Bad),
		}
	}
	pub fn list_u64(&self, k: &str) -> R<Vec<u64>> {
		parse_list(self.get(k)?)
	}
	pub fn opt_list_u64(&self, k: &str) -> R<Option<Vec<u64>>> {
		match self.opt(k) {
			None => Ok(None),
			Some(v) => parse_list(v).map(Some),
		}
	}
	pub fn strs(&self, k: &str) -> Vec<&'a str> {
		match self.opt(k) {
			None => Vec::new(),
			Some("") => Vec::new(),
			Some(v) => v.split(',').collect(),
		}
	}
}

pub fn parse_list(v: &str) -> R<Vec<u64>> {
	if v.is_empty() {
		return Ok(Vec::new());
	}
	v.split(',').map(|x| x.parse::<u64>().map_err(|_| Bad)).collect()
}

pub fn hex(bytes: &[u8]) -> String {
	let mut s = String::with_capacity(bytes.len() * 2);
	for b in bytes {
		let _ = write!(s, "{:02x}", b);
	}
	s
}

pub fn unhex(s: &str) -> R<Vec<u8>> {
	if s.len() % 2 != 0 {
		return Err(Bad);
	}
	(0..s.len() / 2).map(|i| u8::from_str_radix(&s[2 * i..2 * i + 2], 16).map_err(|_| Bad)).collect()
}

/// All unsigned decimal numbers occurring in a JSON text, in order (state read-back).
pub fn json_numbers(s: &str) -> Vec<u64> {
	let mut out = Vec::new();
	let mut cur: Option<u64> = None;
	for c in s.chars() {
		if let Some(d) = c.to_digit(10) {
			cur = Some(cur.unwrap_or(0).wrapping_mul(10).wrapping_add(d as u64));
		} else if let Some(v) = cur.take() {
			out.push(v);
		}
	}
	if let Some(v) = cur {
		out.push(v);
	}
	out
}

pub fn join<T: ToString>(v: &[T], sep: &str) -> String {
	v.iter().map(|x| x.to_string()).collect::<Vec<_>>().join(sep)
}
