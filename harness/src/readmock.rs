//! `read` / `mock` streams (C18): the `Read` generator over an adversarial scripted reader, and `Mock`.
use crate::util::*;
use std::io;
use std::panic::{catch_unwind, AssertUnwindSafe};
use urandom::rng::{Mock, Read};
use urandom::{Random, Rng};

#[derive(Clone)]
enum Ev {
	Chunk(usize),
	Intr,
	Err(io::ErrorKind),
}

/// hands out the data as the script dictates; an exhausted script hands out everything asked for
struct Scripted {
	data: Vec<u8>,
	pos: usize,
	script: Vec<Ev>,
	next: usize,
	errs: std::rc::Rc<std::cell::Cell<usize>>,
}

impl io::Read for Scripted {
	fn read(&mut self, buf: &mut [u8]) -> io::Result<usize> {
		if buf.is_empty() {
			return Ok(0);
		}
		let ev = if self.next < self.script.len() {
			self.next += 1;
			self.script[self.next - 1].clone()
		} else {
			Ev::Chunk(usize::MAX)
		};
		match ev {
			Ev::Intr => Err(io::Error::new(io::ErrorKind::Interrupted, "interrupted")),
			Ev::Err(kind) => {
				self.errs.set(self.errs.get() + 1);
				Err(io::Error::new(kind, "scripted failure"))
			}
			Ev::Chunk(k) => {
				let n = usize::min(usize::min(usize::max(k, 1), buf.len()), self.data.len() - self.pos);
				buf[..n].copy_from_slice(&self.data[self.pos..self.pos + n]);
				self.pos += n;
				Ok(n)
			}
		}
	}
}

/// a reader that brings its own `read_exact`, written the obvious way: `Interrupted` escapes from it like any other error, also after a
/// part of the buffer has been delivered (std's provided method would retry)
struct Naive(Scripted);

impl io::Read for Naive {
	fn read(&mut self, buf: &mut [u8]) -> io::Result<usize> {
		self.0.read(buf)
	}
	fn read_exact(&mut self, mut buf: &mut [u8]) -> io::Result<()> {
		while !buf.is_empty() {
			let n = self.0.read(buf)?;
			if n == 0 {
				return Err(io::Error::new(io::ErrorKind::UnexpectedEof, "failed to fill whole buffer"));
			}
			buf = &mut buf[n..];
		}
		Ok(())
	}
}

fn op_on<G: Rng + ?Sized>(r: &mut Random<G>, op: &str) -> R<String> {
	let res = catch_unwind(AssertUnwindSafe(|| -> R<String> {
		Ok(match op {
			"u32" => r.next_u32().to_string(),
			"u64" => r.next_u64().to_string(),
			"jump" => {
				r.jump();
				"-".to_string()
			}
			_ => {
				let n: usize = op.strip_prefix("fill:").ok_or(Bad)?.parse().map_err(|_| Bad)?;
				// canary-framed destination: a failing fill may leave it partially written, a successful one fills it
				let mut buf = vec![0xA5u8; n];
				r.fill_bytes(&mut buf[..]);
				format!("b:{}", hex(&buf))
			}
		})
	}));
	match res {
		Ok(x) => x,
		Err(_) => Ok("panic".to_string()),
	}
}

pub fn read(req: &Req) -> R<String> {
	let data = unhex(req.get("data")?)?;
	let mut script = Vec::new();
	for s in req.strs("script") {
		script.push(match s {
			"i" => Ev::Intr,
			// every error kind other than Interrupted is a failure of the reader: the operation must panic
			"e" => Ev::Err(io::ErrorKind::Other),
			"e:wouldblock" => Ev::Err(io::ErrorKind::WouldBlock),
			"e:timedout" => Ev::Err(io::ErrorKind::TimedOut),
			"e:eof" => Ev::Err(io::ErrorKind::UnexpectedEof),
			"e:brokenpipe" => Ev::Err(io::ErrorKind::BrokenPipe),
			"e:invaliddata" => Ev::Err(io::ErrorKind::InvalidData),
			"e:oom" => Ev::Err(io::ErrorKind::OutOfMemory),
			"e:unsupported" => Ev::Err(io::ErrorKind::Unsupported),
			_ => Ev::Chunk(s.strip_prefix("c:").ok_or(Bad)?.parse().map_err(|_| Bad)?),
		});
	}
	let errs = std::rc::Rc::new(std::cell::Cell::new(0usize));
	let rd = Scripted { data, pos: 0, script, next: 0, errs: errs.clone() };
	let mut out = Vec::new();
	if req.get("rx").ok() == Some("naive") {
		let mut r = Read::new(Naive(rd));
		for op in req.strs("ops") {
			out.push(op_on(&mut r, op)?);
		}
	} else {
		let mut r = Read::new(rd);
		for op in req.strs("ops") {
			out.push(op_on(&mut r, op)?);
		}
	}
	// for the oracle only (stripped before the comparison with the model): how many I/O errors the reader reported
	out.push(format!("errs={}", errs.get()));
	Ok(out.join(" "))
}

pub fn mock(req: &Req) -> R<String> {
	let words = req.list_u64("words")?;
	let mut r = Mock::slice(&words);
	let mut out = Vec::new();
	for op in req.strs("ops") {
		out.push(op_on(&mut r, op)?);
	}
	Ok(out.join(" "))
}
