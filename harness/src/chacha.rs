//! `chacha` stream: the buffered ChaCha generators under op histories with injected states
//! (C02, C03, C09, C19), and `slpblock`: one raw batch of the portable back end via the hook.
use crate::util::*;
use crate::word::run_ops;
use urandom::rng::{ChaCha, SecureRng};
use urandom::Random;

fn state_json(key: &[u64], ctr: u64, st: u64, idx: Option<u64>, buf: Option<&[u8]>) -> String {
	let mut words: Vec<u64> = key.to_vec();
	words.extend([ctr & 0xffff_ffff, ctr >> 32, st & 0xffff_ffff, st >> 32]);
	let mut s = format!("{{\"state\":[{}]", join(&words, ","));
	if let Some(i) = idx {
		s.push_str(&format!(",\"index\":{}", i));
	}
	if let Some(b) = buf {
		let rows: Vec<String> = (0..4)
			.map(|r| {
				let ws: Vec<u32> = (0..16).map(|c| u32::from_le_bytes(b[(r * 16 + c) * 4..(r * 16 + c) * 4 + 4].try_into().unwrap())).collect();
				format!("[{}]", join(&ws, ","))
			})
			.collect();
		s.push_str(&format!(",\"random\":[{}]", rows.join(",")));
	}
	s.push('}');
	s
}

/// `st:<12 words> idx:<index>` read back through serde.
pub fn dump<const N: usize>(r: &Random<ChaCha<N>>) -> R<String>
where
	ChaCha<N>: SecureRng,
{
	let v: serde_json::Value = serde_json::to_value(r).map_err(|_| Bad)?;
	let st: Vec<u64> = v.get("state").and_then(|s| s.as_array()).ok_or(Bad)?.iter().map(|x| x.as_u64().unwrap_or(u64::MAX)).collect();
	// an index >= 256 is not serialised (and means "buffer empty"): canonical token `oob`
	let idx = match v.get("index").and_then(|i| i.as_u64()) {
		Some(i) if i < 256 => i.to_string(),
		_ => "oob".to_string(),
	};
	Ok(format!("st:{} idx:{}", join(&st, ","), idx))
}

fn go<const N: usize>(req: &Req) -> R<String>
where
	ChaCha<N>: SecureRng,
{
	let mut r: Random<ChaCha<N>> = if let Some(seed) = req.opt_u64("seed")? {
		ChaCha::<N>::from_seed(seed)
	} else {
		let key = req.list_u64("key")?;
		if key.len() != 8 {
			return Err(Bad);
		}
		let buf = match req.opt("buf") {
			Some(h) => {
				let b = unhex(h)?;
				if b.len() != 256 {
					return Err(Bad);
				}
				Some(b)
			}
			None => None,
		};
		let js = state_json(&key, req.u64("ctr")?, req.u64("str")?, req.opt_u64("idx")?, buf.as_deref());
		serde_json::from_str(&js).map_err(|_| Bad)?
	};
	let ops = req.strs("ops");
	let mut out = run_ops(&mut r, &ops)?;
	out.push(dump(&r)?);
	Ok(out.join(" "))
}

pub fn chacha(req: &Req) -> R<String> {
	match req.u64("n")? {
		8 => go::<8>(req),
		12 => go::<12>(req),
		20 => go::<20>(req),
		_ => Err(Bad),
	}
}

pub fn slpblock(req: &Req) -> R<String> {
	let key = req.list_u64("key")?;
	if key.len() != 8 {
		return Err(Bad);
	}
	let mut seed = [0u32; 8];
	for i in 0..8 {
		seed[i] = key[i] as u32;
	}
	let (ctr, st) = (req.u64("ctr")?, req.u64("str")?);
	let (out, after) = match req.u64("n")? {
		8 => urandom::rng::verif_slp_block::<8>(seed, ctr, st),
		12 => urandom::rng::verif_slp_block::<12>(seed, ctr, st),
		20 => urandom::rng::verif_slp_block::<20>(seed, ctr, st),
		_ => return Err(Bad),
	};
	let ws: Vec<u32> = out.iter().flat_map(|b| b.iter().copied()).collect();
	Ok(format!("{} ctr:{}", join(&ws, ","), after))
}
