//! Integer / sequence / standard distributions over scripted words (C04-C07, C11, C13, C14).
use crate::mockutil::*;
use crate::util::*;
use urandom::distr::{Alnum, Bernoulli, Dice, Float01, StandardUniform, Uniform, UniformInt, UniformSampler};
use urandom::Distribution;

macro_rules! uint_ty {
	($req:expr, $ty:ty) => {{
		let req: &Req = $req;
		let lo = req.i128("lo")? as $ty;
		let hi = req.i128("hi")? as $ty;
		// the request must be representable in the type (generator bug otherwise)
		if lo as i128 != req.i128("lo")? || hi as i128 != req.i128("hi")? {
			return Err(Bad);
		}
		let incl = req.u64("incl")? != 0;
		let n = req.usize("n")?;
		let words = req.list_u64("words")?;
		let via = req.get("via")?;
		let fmt = |vals: Vec<$ty>, c: usize| format!("ok:{}:{}", join(&vals, ","), c);
		match via {
			"try" => {
				let d = if incl { Uniform::<$ty>::try_new_inclusive(lo, hi) } else { Uniform::<$ty>::try_new(lo, hi) };
				match d {
					Err(e) => Ok(format!("err:{:?}", e)),
					Ok(d) => Ok(match with_mock(&words, |r| draw::<$ty, _>(r, &d, n)) {
						Some((v, c)) => fmt(v, c),
						None => "panic".into(),
					}),
				}
			}
			// the trait constructors of the `Uniform<T>` wrapper itself (generic code: `S::try_new_inclusive` with `S = Uniform<T>`)
			"utrait" => {
				let d = if incl { <Uniform<$ty> as UniformSampler<$ty>>::try_new_inclusive(lo, hi) } else { <Uniform<$ty> as UniformSampler<$ty>>::try_new(lo, hi) };
				match d {
					Err(e) => Ok(format!("err:{:?}", e)),
					Ok(d) => Ok(match with_mock(&words, |r| draw::<$ty, _>(r, &d, n)) {
						Some((v, c)) => fmt(v, c),
						None => "panic".into(),
					}),
				}
			}
			"sampler" => {
				let d = if incl { <UniformInt<$ty> as UniformSampler<$ty>>::try_new_inclusive(lo, hi) } else { <UniformInt<$ty> as UniformSampler<$ty>>::try_new(lo, hi) };
				match d {
					Err(e) => Ok(format!("err:{:?}", e)),
					Ok(d) => Ok(match with_mock(&words, |r| (0..n).map(|_| d.sample(r)).collect::<Vec<$ty>>()) {
						Some((v, c)) => fmt(v, c),
						None => "panic".into(),
					}),
				}
			}
			// a sampler that went through its serialised form (construct, serialise, deserialise, THEN sample): whatever the object caches must survive
			"serde" | "serdesampler" => {
				let text = if via == "serde" {
					match if incl { Uniform::<$ty>::try_new_inclusive(lo, hi) } else { Uniform::<$ty>::try_new(lo, hi) } {
						Err(e) => return Ok(format!("err:{:?}", e)),
						Ok(d) => serde_json::to_string(&d).map_err(|_| Bad)?,
					}
				} else {
					match if incl { <UniformInt<$ty> as UniformSampler<$ty>>::try_new_inclusive(lo, hi) } else { <UniformInt<$ty> as UniformSampler<$ty>>::try_new(lo, hi) } {
						Err(e) => return Ok(format!("err:{:?}", e)),
						Ok(d) => serde_json::to_string(&d).map_err(|_| Bad)?,
					}
				};
				if via == "serde" {
					let d: Uniform<$ty> = serde_json::from_str(&text).map_err(|_| Bad)?;
					Ok(match with_mock(&words, |r| draw::<$ty, _>(r, &d, n)) {
						Some((v, c)) => fmt(v, c),
						None => "panic".into(),
					})
				} else {
					let d: UniformInt<$ty> = serde_json::from_str(&text).map_err(|_| Bad)?;
					Ok(match with_mock(&words, |r| (0..n).map(|_| d.sample(r)).collect::<Vec<$ty>>()) {
						Some((v, c)) => fmt(v, c),
						None => "panic".into(),
					})
				}
			}
			"new" => Ok(match with_mock(&words, |r| {
				let d = if incl { Uniform::<$ty>::new_inclusive(lo, hi) } else { Uniform::<$ty>::new(lo, hi) };
				draw::<$ty, _>(r, &d, n)
			}) {
				Some((v, c)) => fmt(v, c),
				None => "panic".into(),
			}),
			"from" => Ok(match with_mock(&words, |r| {
				let d = if incl { Uniform::<$ty>::from(lo..=hi) } else { Uniform::<$ty>::from(lo..hi) };
				(0..n).map(|_| d.sample(r)).collect::<Vec<$ty>>()
			}) {
				Some((v, c)) => fmt(v, c),
				None => "panic".into(),
			}),
			"range" => Ok(match with_mock(&words, |r| (0..n).map(|_| if incl { r.range(lo..=hi) } else { r.range(lo..hi) }).collect::<Vec<$ty>>()) {
				Some((v, c)) => fmt(v, c),
				None => "panic".into(),
			}),
			_ => Err(Bad),
		}
	}};
}

pub fn uint(req: &Req) -> R<String> {
	match req.get("ty")? {
		"i8" => uint_ty!(req, i8),
		"u8" => uint_ty!(req, u8),
		"i16" => uint_ty!(req, i16),
		"u16" => uint_ty!(req, u16),
		"i32" => uint_ty!(req, i32),
		"u32" => uint_ty!(req, u32),
		"i64" => uint_ty!(req, i64),
		"u64" => uint_ty!(req, u64),
		"isize" => uint_ty!(req, isize),
		"usize" => uint_ty!(req, usize),
		_ => Err(Bad),
	}
}

fn okv<T: ToString>(r: Option<(Vec<T>, usize)>) -> String {
	match r {
		Some((v, c)) => format!("ok:{}:{}", join(&v, ","), c),
		None => "panic".into(),
	}
}

pub fn index(req: &Req) -> R<String> {
	let len = req.usize("len")?;
	let n = req.usize("n")?;
	let words = req.list_u64("words")?;
	Ok(okv(with_mock(&words, |r| (0..n).map(|_| r.index(len)).collect::<Vec<usize>>())))
}

pub fn dice(req: &Req) -> R<String> {
	let n = req.usize("n")?;
	let words = req.list_u64("words")?;
	let kind = req.get("kind")?;
	let sides = req.u64("sides")?;
	Ok(okv(with_mock(&words, |r| {
		let d = match kind {
			"D4" => Dice::D4,
			"D6" => Dice::D6,
			"D8" => Dice::D8,
			"D10" => Dice::D10,
			"D20" => Dice::D20,
			_ => Dice::new(sides as u8),
		};
		draw::<i32, _>(r, &d, n)
	})))
}

pub fn shuf(req: &Req) -> R<String> {
	let mut items = req.list_u64("items")?;
	let words = req.list_u64("words")?;
	Ok(match with_mock(&words, |r| r.shuffle(&mut items[..])) {
		Some(((), c)) => format!("ok:{}:{}", join(&items, ","), c),
		None => "panic".into(),
	})
}

pub fn pshuf(req: &Req) -> R<String> {
	let mut items = req.list_u64("items")?;
	let m = req.usize("m")?;
	let words = req.list_u64("words")?;
	Ok(match with_mock(&words, |r| r.partial_shuffle(&mut items[..], m)) {
		Some(((), c)) => format!("ok:{}:{}", join(&items, ","), c),
		None => "panic".into(),
	})
}

pub fn choose(req: &Req) -> R<String> {
	let mut items = req.list_u64("items")?;
	let words = req.list_u64("words")?;
	let via = req.get("via")?;
	let r = with_mock(&words, |r| match via {
		"choose_mut" => r.choose_mut(&mut items[..]).map(|x| *x),
		_ => r.choose(&items[..]).copied(),
	});
	Ok(match r {
		Some((Some(v), c)) => format!("ok:{}:{}", v, c),
		Some((None, c)) => format!("ok:none:{}", c),
		None => "panic".into(),
	})
}

/// An iterator over `items` whose `size_hint` is chosen by the request.
struct Hinted {
	items: std::vec::IntoIter<u64>,
	lo: usize,
	hi: Option<usize>,
}
impl Iterator for Hinted {
	type Item = u64;
	fn next(&mut self) -> Option<u64> {
		self.items.next()
	}
	fn size_hint(&self) -> (usize, Option<usize>) {
		(self.lo, self.hi)
	}
}

/// `items` behind an iterator type chosen by the request: the collection is the same, what the callee can learn
/// from `size_hint` (and which adaptor type it sees) differs.
pub fn hinted<'a>(items: &'a [u64], hint: Option<&str>) -> Box<dyn Iterator<Item = u64> + 'a> {
	let n = items.len();
	match hint {
		None | Some("slice") => Box::new(items.iter().copied()),
		Some("vec") => Box::new(items.to_vec().into_iter()),
		Some("exact") => Box::new(Hinted { items: items.to_vec().into_iter(), lo: n, hi: Some(n) }),
		Some("lower") => Box::new(Hinted { items: items.to_vec().into_iter(), lo: n / 2, hi: Some(n + 3) }),
		Some("upper") => Box::new(Hinted { items: items.to_vec().into_iter(), lo: 0, hi: Some(n) }),
		Some("filter") => Box::new(items.iter().copied().filter(|_| true)),
		Some("chain") => Box::new(items[..n / 2].iter().copied().chain(items[n / 2..].iter().copied().filter(|_| true))),
		_ => Box::new(Hinted { items: items.to_vec().into_iter(), lo: 0, hi: None }),
	}
}

pub fn single(req: &Req) -> R<String> {
	let items = req.list_u64("items")?;
	let words = req.list_u64("words")?;
	let n = items.len();
	let r = with_mock(&words, |r| match req.opt("hint") {
		Some("slice") => r.single(items.iter().copied()),
		Some("vec") => r.single(items.clone()),
		Some("exact") => r.single(Hinted { items: items.clone().into_iter(), lo: n, hi: Some(n) }),
		Some("lower") => r.single(Hinted { items: items.clone().into_iter(), lo: n / 2, hi: Some(n + 3) }),
		Some("upper") => r.single(Hinted { items: items.clone().into_iter(), lo: 0, hi: Some(n) }),
		Some("filter") => r.single(items.iter().copied().filter(|_| true)),
		_ => r.single(Hinted { items: items.clone().into_iter(), lo: 0, hi: None }),
	});
	Ok(match r {
		Some((Some(v), c)) => format!("ok:{}:{}", v, c),
		Some((None, c)) => format!("ok:none:{}", c),
		None => "panic".into(),
	})
}

pub fn multi(req: &Req) -> R<String> {
	let items = req.list_u64("items")?;
	let mut buf = req.list_u64("buf")?;
	let words = req.list_u64("words")?;
	let hint = req.opt("hint");
	let r = match hint {
		None => with_mock(&words, |r| r.multiple(items.iter().copied(), &mut buf[..])),
		Some("filter") => with_mock(&words, |r| r.multiple(items.iter().copied().filter(|_| true), &mut buf[..])),
		h => with_mock(&words, |r| r.multiple(hinted(&items, h), &mut buf[..])),
	};
	Ok(match r {
		Some((cnt, c)) => format!("ok:{}:{}:{}", cnt, join(&buf, ","), c),
		None => "panic".into(),
	})
}

pub fn alnum(req: &Req) -> R<String> {
	let n = req.usize("n")?;
	let words = req.list_u64("words")?;
	Ok(match with_mock(&words, |r| draw::<char, _>(r, &Alnum, n).into_iter().collect::<String>()) {
		Some((s, c)) => format!("ok:{}:{}", s, c),
		None => "panic".into(),
	})
}

pub fn f01(req: &Req) -> R<String> {
	let n = req.usize("n")?;
	let words = req.list_u64("words")?;
	Ok(match req.u64("w")? {
		32 => okv(with_mock(&words, |r| draw::<f32, _>(r, &Float01, n).into_iter().map(|x| x.to_bits() as u64).collect::<Vec<u64>>())),
		64 => match req.opt("via") {
			Some("float01") => okv(with_mock(&words, |r| (0..n).map(|_| r.float01().to_bits()).collect::<Vec<u64>>())),
			_ => okv(with_mock(&words, |r| draw::<f64, _>(r, &Float01, n).into_iter().map(|x| x.to_bits()).collect::<Vec<u64>>())),
		},
		_ => return Err(Bad),
	})
}

pub fn bern(req: &Req) -> R<String> {
	let n = req.usize("n")?;
	let words = req.list_u64("words")?;
	let p = f64::from_bits(req.u64("p")?);
	Ok(match req.get("via")? {
		"chance" => okv(with_mock(&words, |r| (0..n).map(|_| r.chance(p) as u8).collect::<Vec<u8>>())),
		"sample" => okv(with_mock(&words, |r| {
			let d = Bernoulli::new(p);
			(0..n).map(|_| d.sample(r) as u8).collect::<Vec<u8>>()
		})),
		_ => return Err(Bad),
	})
}

// ---- StandardUniform ---------------------------------------------------------------------

use std::num::*;
use urandom::Rng;

fn prim<G: Rng + ?Sized>(r: &mut urandom::Random<G>, ty: &str) -> R<String> {
	Ok(prim_n(r, ty, 1)?.pop().unwrap())
}

fn is_prim(ty: &str) -> bool {
	matches!(ty, "bool" | "i8" | "u8" | "i16" | "u16" | "i32" | "u32" | "i64" | "u64" | "i128" | "u128" | "isize" | "usize" | "f32" | "f64" | "char" | "nz8" | "nz16" | "nz32" | "nz64" | "nz128" | "nzsize")
}

fn prim_n<G: Rng + ?Sized>(r: &mut urandom::Random<G>, ty: &str, count: usize) -> R<Vec<String>> {
	// `next::<T>()` or, on request (`path=stdsample` / `path=stdtrait` / `path=stdfill`), the same draws through
	// `sample(&StandardUniform)` / the trait method / ONE `Random::fill` call over a buffer of `count` elements
	let path = PATH.with(|p| p.borrow().clone());
	macro_rules! nx {
		($t:ty, $f:expr) => {{
			let v: Vec<$t> = match path.as_str() {
				"stdsample" => (0..count).map(|_| r.sample::<$t, _>(&StandardUniform)).collect(),
				"stdtrait" => (0..count).map(|_| <StandardUniform as Distribution<$t>>::sample(&StandardUniform, r)).collect(),
				"stdfill" => {
					// the initial content comes from an unrelated generator (some element types have no Default)
					let init: $t = urandom::seeded(1).next::<$t>();
					let mut b: Vec<$t> = vec![init; count];
					r.fill(&mut b[..]);
					b
				}
				_ => (0..count).map(|_| r.next::<$t>()).collect(),
			};
			let f = $f;
			v.into_iter().map(|x: $t| -> String { f(x) }).collect::<Vec<String>>()
		}};
	}
	Ok(match ty {
		"bool" => nx!(bool, |x| (x as u8).to_string()),
		"coin" => (0..count).map(|_| (r.coin_flip() as u8).to_string()).collect(),
		"i8" => nx!(i8, |x: i8| x.to_string()),
		"u8" => nx!(u8, |x: u8| x.to_string()),
		"i16" => nx!(i16, |x: i16| x.to_string()),
		"u16" => nx!(u16, |x: u16| x.to_string()),
		"i32" => nx!(i32, |x: i32| x.to_string()),
		"u32" => nx!(u32, |x: u32| x.to_string()),
		"i64" => nx!(i64, |x: i64| x.to_string()),
		"u64" => nx!(u64, |x: u64| x.to_string()),
		"i128" => nx!(i128, |x: i128| x.to_string()),
		"u128" => nx!(u128, |x: u128| x.to_string()),
		"isize" => nx!(isize, |x: isize| x.to_string()),
		"usize" => nx!(usize, |x: usize| x.to_string()),
		"wi16" => (0..count).map(|_| r.sample::<Wrapping<i16>, _>(&Wrapping(0i16)).0.to_string()).collect(),
		"wu64" => (0..count).map(|_| r.sample::<Wrapping<u64>, _>(&Wrapping(0u64)).0.to_string()).collect(),
		"f32" => nx!(f32, |x: f32| x.to_bits().to_string()),
		"f64" => nx!(f64, |x: f64| x.to_bits().to_string()),
		"char" => nx!(char, |x: char| (x as u32).to_string()),
		"nz8" => nx!(NonZeroU8, |x: NonZeroU8| x.get().to_string()),
		"nz16" => nx!(NonZeroU16, |x: NonZeroU16| x.get().to_string()),
		"nz32" => nx!(NonZeroU32, |x: NonZeroU32| x.get().to_string()),
		"nz64" => nx!(NonZeroU64, |x: NonZeroU64| x.get().to_string()),
		"nz128" => nx!(NonZeroU128, |x: NonZeroU128| x.get().to_string()),
		"nzsize" => nx!(NonZeroUsize, |x: NonZeroUsize| x.get().to_string()),
		_ => return Err(Bad),
	})
}

fn std_value(r: &mut MockRand, ty: &str) -> R<String> {
	// compound shapes are a fixed menu (they must exist as Rust types)
	Ok(match ty {
		"t0" => {
			let () = r.next::<()>();
			String::new()
		}
		"t1" => {
			let (a,) = r.next::<(u8,)>();
			format!("{}", a)
		}
		"t2" => {
			let (a, b) = r.next::<(u8, i64)>();
			format!("{},{}", a, b)
		}
		"t3" => {
			let (a, b, c) = r.next::<(bool, u16, u128)>();
			format!("{},{},{}", a as u8, b, c)
		}
		"t5" => {
			let (a, b, c, d, e) = r.next::<(i8, u64, char, i32, bool)>();
			format!("{},{},{},{},{}", a, b, c as u32, d, e as u8)
		}
		"t12" => {
			let (a, b, c, d, e, f, g, h, i, j, k, l) = r.next::<(u8, u16, u32, u64, i8, i16, i32, i64, u8, u64, u16, u32)>();
			format!("{},{},{},{},{},{},{},{},{},{},{},{}", a, b, c, d, e, f, g, h, i, j, k, l)
		}
		"a0u8" => join(&r.next::<[u8; 0]>(), ","),
		"a1u8" => join(&r.next::<[u8; 1]>(), ","),
		"a5u16" => join(&r.next::<[u16; 5]>(), ","),
		"a7i64" => join(&r.next::<[i64; 7]>(), ","),
		"a3u128" => join(&r.next::<[u128; 3]>(), ","),
		"a4bool" => join(&r.next::<[bool; 4]>().map(|b| b as u8), ","),
		"a2t" => {
			let v = r.next::<[(u8, u64); 2]>();
			format!("{},{},{},{}", v[0].0, v[0].1, v[1].0, v[1].1)
		}
		"fill5u16" => {
			let mut b = [0u16; 5];
			r.fill(&mut b[..]);
			join(&b, ",")
		}
		"sample_i32" => r.sample::<i32, _>(&StandardUniform).to_string(),
		_ => prim(r, ty)?,
	})
}

pub fn std(req: &Req) -> R<String> {
	let ty = req.get("ty")?;
	let n = req.usize("n")?;
	let words = req.list_u64("words")?;
	let mut bad = false;
	let whole = is_prim(ty) && PATH.with(|p| p.borrow().as_str() == "stdfill");
	let r = with_mock(&words, |r| {
		let mut out = Vec::new();
		if whole {
			match prim_n(r, ty, n) {
				Ok(v) => return v,
				Err(_) => {
					bad = true;
					return out;
				}
			}
		}
		for _ in 0..n {
			match std_value(r, ty) {
				Ok(s) => out.push(s),
				Err(_) => {
					bad = true;
					break;
				}
			}
		}
		out
	});
	if bad {
		return Err(Bad);
	}
	Ok(match r {
		Some((v, c)) => format!("ok:{}:{}", v.join(";"), c),
		None => "panic".into(),
	})
}
