//! `fillb` stream (C10): byte fills through every API into canary-framed destinations.
use crate::util::*;
use std::io::Read as _;
use std::mem::MaybeUninit;
use urandom::rng::{ChaCha12, ChaCha20, ChaCha8, Mock, SplitMix64, System, Wyrand, Xoshiro256};
use urandom::{Random, Rng};

const PAD: usize = 64;

/// Fills `count` elements of `esize` bytes at byte offset `off` of a 16-aligned arena whose other
/// bytes are `bg`; returns (arena bytes, reported length if the API reports one).
fn fill_into<G: Rng + ?Sized>(r: &mut Random<G>, bg: u8, off: usize, elem: &str, count: usize, api: &str) -> R<(Vec<u8>, Option<usize>, usize)> {
	macro_rules! typed {
		($t:ty) => {{
			let esize = std::mem::size_of::<$t>();
			if off % std::mem::align_of::<$t>() != 0 {
				return Err(Bad);
			}
			let total = PAD + off + count * esize + PAD;
			let mut arena: Vec<u128> = vec![u128::from_ne_bytes([bg; 16]); (total + 15) / 16 + 1];
			let base = arena.as_mut_ptr() as *mut u8;
			let mut ret = None;
			unsafe {
				let p = base.add(PAD + off) as *mut $t;
				match api {
					"fill_bytes" => {
						let s = std::slice::from_raw_parts_mut(p, count);
						let out = r.fill_bytes(s);
						ret = Some(out.len() * esize);
					}
					"fill_bytes_uninit" => {
						let s = std::slice::from_raw_parts_mut(p as *mut MaybeUninit<$t>, count);
						let out = r.fill_bytes_uninit(s);
						ret = Some(out.len() * esize);
					}
					_ => return Err(Bad),
				}
			}
			let bytes = unsafe { std::slice::from_raw_parts(base, arena.len() * 16) }.to_vec();
			Ok((bytes, ret, count * esize))
		}};
	}
	match elem {
		"u8" => {
			if api == "read" || api == "read_exact" {
				let total = PAD + off + count + PAD;
				let mut arena = vec![bg; total + 16];
				let ret;
				{
					let s = &mut arena[PAD + off..PAD + off + count];
					if api == "read" {
						ret = Some(r.read(s).map_err(|_| Bad)?);
					} else {
						r.read_exact(s).map_err(|_| Bad)?;
						ret = Some(count);
					}
				}
				return Ok((arena, ret, count));
			}
			typed!(u8)
		}
		"u16" => typed!(u16),
		"u32" => typed!(u32),
		"u64" => typed!(u64),
		"u128" => typed!(u128),
		"a3u8" => typed!([u8; 3]),
		"a5u32" => typed!([u32; 5]),
		// zero-sized elements: a non-empty slice of no bytes
		"z0" => typed!([u8; 0]),
		"unit" => typed!(()),
		_ => Err(Bad),
	}
}

fn random_bytes_of<G: Rng + ?Sized>(r: &mut Random<G>, shape: &str) -> R<Vec<u8>> {
	Ok(match shape {
		"rb0" => r.random_bytes::<[u8; 0]>().to_vec(),
		"rbunit" => {
			let _: () = r.random_bytes::<()>();
			Vec::new()
		}
		"rb1" => r.random_bytes::<[u8; 1]>().to_vec(),
		"rb3" => r.random_bytes::<[u8; 3]>().to_vec(),
		"rb2" => r.random_bytes::<u16>().to_le_bytes().to_vec(),
		"rb4" => r.random_bytes::<[u8; 4]>().to_vec(),
		"rb4u32" => r.random_bytes::<u32>().to_le_bytes().to_vec(),
		"rb4f32" => r.random_bytes::<f32>().to_bits().to_le_bytes().to_vec(),
		"rb4u16x2" => r.random_bytes::<[u16; 2]>().iter().flat_map(|w| w.to_le_bytes()).collect(),
		"rb8a" => r.random_bytes::<[u8; 8]>().to_vec(),
		"rb8f64" => r.random_bytes::<f64>().to_bits().to_le_bytes().to_vec(),
		"rb16" => r.random_bytes::<u128>().to_le_bytes().to_vec(),
		"rb8" => r.random_bytes::<u64>().to_le_bytes().to_vec(),
		"rb13" => r.random_bytes::<[u8; 13]>().to_vec(),
		"rb20" => r.random_bytes::<[u32; 5]>().iter().flat_map(|w| w.to_le_bytes()).collect(),
		"rb32" => r.random_bytes::<[u64; 4]>().iter().flat_map(|w| w.to_le_bytes()).collect(),
		"rb300" => r.random_bytes::<[u8; 300]>().to_vec(),
		_ => return Err(Bad),
	})
}

fn next_or_panic<G: Rng + ?Sized>(r: &mut Random<G>) -> String {
	match std::panic::catch_unwind(std::panic::AssertUnwindSafe(|| r.next_u64())) {
		Ok(v) => v.to_string(),
		Err(_) => "panic".to_string(),
	}
}

fn run<G: Rng>(mk: &dyn Fn() -> R<Random<G>>, req: &Req) -> R<String> {
	let run_ops = |r: &mut Random<G>, ops: &[&str]| -> R<Vec<String>> { ops.iter().map(|op| crate::word::run_op_noclone(r, op)).collect() };
	let pre = req.strs("pre");
	let api = req.get("api")?;
	if api == "random_bytes" {
		let mut r = mk()?;
		run_ops(&mut r, &pre)?;
		let b = random_bytes_of(&mut r, req.get("elem")?)?;
		let next = next_or_panic(&mut r);
		return Ok(format!("b:{} canary:ok init:ok ret:{} next:{}", hex(&b), b.len(), next));
	}
	let off = req.usize("off")?;
	let count = req.usize("count")?;
	let elem = req.get("elem")?;
	let mut results = Vec::new();
	let mut nexts = Vec::new();
	for bg in [0x00u8, 0xFF] {
		let mut r = mk()?;
		run_ops(&mut r, &pre)?;
		results.push((bg, fill_into(&mut r, bg, off, elem, count, api)?));
		nexts.push(next_or_panic(&mut r));
	}
	let (_, (a0, ret0, len)) = &results[0];
	let (_, (a1, ret1, _)) = &results[1];
	let lo = PAD + off;
	let hi = lo + len;
	// canaries: everything outside [lo, hi) still holds the background
	let canary = a0.iter().enumerate().all(|(i, &x)| (lo..hi).contains(&i) || x == 0x00) && a1.iter().enumerate().all(|(i, &x)| (lo..hi).contains(&i) || x == 0xFF);
	// every destination byte was written: the two backgrounds give the same content
	let init = a0[lo..hi] == a1[lo..hi] && nexts[0] == nexts[1];
	let ret = match (ret0, ret1) {
		(Some(a), Some(b)) if a == b => a.to_string(),
		(None, None) => "-".to_string(),
		_ => "inconsistent".to_string(),
	};
	Ok(format!("b:{} canary:{} init:{} ret:{} next:{}", hex(&a0[lo..hi]), if canary { "ok" } else { "BROKEN" }, if init { "ok" } else { "UNWRITTEN" }, ret, nexts[0]))
}

pub fn fillb(req: &Req) -> R<String> {
	let gen = req.get("gen")?;
	let seed = req.opt_u64("seed")?.unwrap_or(0);
	match gen {
		"xoshiro" => run(&|| Ok(Xoshiro256::from_seed(seed)), req),
		"splitmix" => run(&|| Ok(SplitMix64::from_seed(seed)), req),
		"wyrand" => run(&|| Ok(Wyrand::from_seed(seed)), req),
		"chacha8" => run(&|| Ok(ChaCha8::from_seed(seed)), req),
		"chacha12" => run(&|| Ok(ChaCha12::from_seed(seed)), req),
		"chacha20" => run(&|| Ok(ChaCha20::from_seed(seed)), req),
		// the system-entropy generator over the scripted entropy source (every fetch succeeds): its bytes are the tagged fetch words
		"system" => {
			#[cfg(not(feature = "gr"))]
			{
				let mk = |n: u64| -> R<()> { let _ = n; crate::entropy::reset(&[]); Ok(()) };
				return match req.opt_u64("n")?.unwrap_or(31) {
					1 => run(&|| { mk(1)?; Ok(System::<1>::new()) }, req),
					2 => run(&|| { mk(2)?; Ok(System::<2>::new()) }, req),
					4 => run(&|| { mk(4)?; Ok(System::<4>::new()) }, req),
					31 => run(&|| { mk(31)?; Ok(System::<31>::new()) }, req),
					64 => run(&|| { mk(64)?; Ok(System::<64>::new()) }, req),
					_ => Err(Bad),
				};
			}
			#[cfg(feature = "gr")]
			Err(Bad)
		}
		"mock" => {
			let words = req.list_u64("words")?;
			let leaked: &'static [u64] = Box::leak(words.into_boxed_slice());
			run(&|| Ok(Mock::slice(leaked)), req)
		}
		_ => Err(Bad),
	}
}
