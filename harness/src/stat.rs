//! Outcome frequencies of the sequence operations under a REAL generator (statistical violation search for
//! C05, C06, C07: model-free, sound for any implementation; the exact claims are the theorems).
//!
//! `stat kind=<single|choose|multi|shuf|pshuf|index> n=<items> k=<slots> samples=<N> seed=<s> [hint=..] [gen=..]`
//! answers `outcome=count;...` (outcomes as in `enum`).
use crate::util::*;
use std::collections::BTreeMap;
use urandom::rng::*;
use urandom::{Random, Rng};

fn run<G: Rng>(mut r: Random<G>, kind: &str, n: usize, k: usize, samples: u64, hint: Option<&str>) -> R<String> {
	let items: Vec<u64> = (0..n as u64).collect();
	let mut counts: BTreeMap<String, u64> = BTreeMap::new();
	for _ in 0..samples {
		let outcome = match kind {
			"shuf" => {
				let mut a = items.clone();
				r.shuffle(&mut a[..]);
				join(&a, ",")
			}
			"pshuf" => {
				let mut a = items.clone();
				r.partial_shuffle(&mut a[..], k);
				join(&a[..usize::min(k, n)], ",")
			}
			"multi" => {
				let mut buf = vec![u64::MAX; k];
				let cnt = match hint {
					None => r.multiple(items.iter().copied(), &mut buf[..]),
					h => r.multiple(crate::distr::hinted(&items, h), &mut buf[..]),
				};
				let mut s: Vec<u64> = buf[..cnt].to_vec();
				s.sort();
				join(&s, ",")
			}
			"choose" => match r.choose(&items[..]).copied() {
				Some(v) => v.to_string(),
				None => "none".into(),
			},
			"single" => match match hint {
				None => r.single(items.iter().copied()),
				h => r.single(crate::distr::hinted(&items, h)),
			} {
				Some(v) => v.to_string(),
				None => "none".into(),
			},
			"index" => r.index(n).to_string(),
			// large slices: in which quarter of the slice does element `k` end up (shuffle) / from which quarter does the element at position `k` come (partial_shuffle(k+1))
			"shufpos" => {
				let mut a = items.clone();
				r.shuffle(&mut a[..]);
				(a.iter().position(|&x| x == k as u64).unwrap_or(usize::MAX) * 4 / n).to_string()
			}
			"pshufpos" => {
				let mut a = items.clone();
				r.partial_shuffle(&mut a[..], k + 1);
				(a[k] as usize * 4 / n).to_string()
			}
			_ => return Err(Bad),
		};
		*counts.entry(outcome).or_insert(0) += 1;
	}
	let parts: Vec<String> = counts.iter().map(|(k, v)| format!("{}={}", k, v)).collect();
	Ok(parts.join(";"))
}

pub fn stat(req: &Req) -> R<String> {
	let kind = req.get("kind")?;
	let n = req.usize("n")?;
	let k = req.usize("k")?;
	let samples = req.u64("samples")?;
	let seed = req.u64("seed")?;
	let hint = req.opt("hint");
	if samples > 50_000_000 || (n > 64 && !kind.ends_with("pos")) || n > 1 << 22 {
		return Err(Bad);
	}
	match req.opt("gen").unwrap_or("xoshiro") {
		"xoshiro" => run(Xoshiro256::from_seed(seed), kind, n, k, samples, hint),
		"splitmix" => run(SplitMix64::from_seed(seed), kind, n, k, samples, hint),
		"wyrand" => run(Wyrand::from_seed(seed), kind, n, k, samples, hint),
		"chacha8" => run(ChaCha8::from_seed(seed), kind, n, k, samples, hint),
		_ => Err(Bad),
	}
}

/// `statd dist=<norm|exp|expl|normal|lognormal> w=<32|64> [a=<f64 bits>] [b=<f64 bits>] samples=<N> seed=<s> [gen=..] edges=<f64 bits,...>`
/// answers the number of samples in each of the `edges.len()+1` bins `(-inf,e0), [e0,e1), ..., [e_last, +inf)` and, last, the NaN count.
/// f32 samples are widened (exactly) before binning.
fn rund<G: Rng>(mut r: Random<G>, dist: &str, w: u64, a: f64, b: f64, samples: u64, edges: &[f64]) -> R<String> {
	use urandom::distr::*;
	let mut counts = vec![0u64; edges.len() + 2];
	let nan_slot = edges.len() + 1;
	macro_rules! go {
		($sampler:expr) => {{
			for _ in 0..samples {
				let x: f64 = $sampler;
				if x.is_nan() {
					counts[nan_slot] += 1;
				}
				else {
					counts[edges.partition_point(|e| *e <= x)] += 1;
				}
			}
		}};
	}
	match (dist, w) {
		("norm", 64) => go!(r.sample::<f64, _>(&StandardNormal)),
		("norm", 32) => go!(r.sample::<f32, _>(&StandardNormal) as f64),
		("exp", 64) => go!(r.sample::<f64, _>(&Exp1)),
		("exp", 32) => go!(r.sample::<f32, _>(&Exp1) as f64),
		("expl", 64) => {
			let d = Exp::<f64>::new(a);
			go!(r.sample::<f64, _>(&d))
		}
		("expl", 32) => {
			let d = Exp::<f32>::new(a as f32);
			go!(r.sample::<f32, _>(&d) as f64)
		}
		("normal", 64) => {
			let d = Normal::<f64>::new(a, b);
			go!(r.sample::<f64, _>(&d))
		}
		("normal", 32) => {
			let d = Normal::<f32>::new(a as f32, b as f32);
			go!(r.sample::<f32, _>(&d) as f64)
		}
		("lognormal", 64) => {
			let d = LogNormal::<f64>::new(a, b);
			go!(r.sample::<f64, _>(&d))
		}
		("lognormal", 32) => {
			let d = LogNormal::<f32>::new(a as f32, b as f32);
			go!(r.sample::<f32, _>(&d) as f64)
		}
		_ => return Err(Bad),
	}
	Ok(join(&counts, ","))
}

pub fn statd(req: &Req) -> R<String> {
	let dist = req.get("dist")?;
	let w = req.u64("w")?;
	let samples = req.u64("samples")?;
	let seed = req.u64("seed")?;
	let a = f64::from_bits(req.opt_u64("a")?.unwrap_or(0));
	let b = f64::from_bits(req.opt_u64("b")?.unwrap_or(0));
	let edges: Vec<f64> = req.list_u64("edges")?.into_iter().map(f64::from_bits).collect();
	if samples > 2_000_000_000 || edges.windows(2).any(|p| !(p[0] < p[1])) {
		return Err(Bad);
	}
	match req.opt("gen").unwrap_or("xoshiro") {
		"xoshiro" => rund(Xoshiro256::from_seed(seed), dist, w, a, b, samples, &edges),
		"splitmix" => rund(SplitMix64::from_seed(seed), dist, w, a, b, samples, &edges),
		"wyrand" => rund(Wyrand::from_seed(seed), dist, w, a, b, samples, &edges),
		"chacha8" => rund(ChaCha8::from_seed(seed), dist, w, a, b, samples, &edges),
		_ => Err(Bad),
	}
}


/// `zstat w=<32|64> a=<mean, f64 bits> b=<sd, f64 bits> samples=<N> seed=<s> [gen=..]`: under a real generator, every `Normal(a, b)` sample is
/// compared with `mean + sd*z` (fused and unfused, in the sample's own type, computed HERE by the platform) for the standard-normal
/// sample `z` that a clone of the generator draws from the same position of the stream.  Answers
/// `<mismatches>:<index of the first>:<z bits>:<sample bits>:<fused bits>:<unfused bits>` (a search over streams for the rare inputs on which an
/// implementation that, say, goes through a wider type rounds differently).
fn runz<G: Rng + Clone>(mut r: Random<G>, w: u64, a: f64, b: f64, samples: u64) -> R<String> {
	use urandom::distr::*;
	let (mut bad, mut first) = (0u64, String::new());
	if w == 32 {
		let (m, sd) = (a as f32, b as f32);
		let d = Normal::<f32>::new(m, sd);
		for i in 0..samples {
			let mut twin = r.clone();
			let z: f32 = twin.sample(&StandardNormal);
			let s: f32 = r.sample(&d);
			let (c1, c2) = (sd.mul_add(z, m), sd * z + m);
			if !(s.to_bits() == c1.to_bits() || s.to_bits() == c2.to_bits() || (s.is_nan() && (c1.is_nan() || c2.is_nan()))) {
				if bad == 0 {
					first = format!("{}:{}:{}:{}:{}", i, z.to_bits(), s.to_bits(), c1.to_bits(), c2.to_bits());
				}
				bad += 1;
			}
		}
	}
	else {
		let d = Normal::<f64>::new(a, b);
		for i in 0..samples {
			let mut twin = r.clone();
			let z: f64 = twin.sample(&StandardNormal);
			let s: f64 = r.sample(&d);
			let (c1, c2) = (b.mul_add(z, a), b * z + a);
			if !(s.to_bits() == c1.to_bits() || s.to_bits() == c2.to_bits() || (s.is_nan() && (c1.is_nan() || c2.is_nan()))) {
				if bad == 0 {
					first = format!("{}:{}:{}:{}:{}", i, z.to_bits(), s.to_bits(), c1.to_bits(), c2.to_bits());
				}
				bad += 1;
			}
		}
	}
	Ok(format!("{}:{}", bad, if bad == 0 { "-".to_string() } else { first }))
}

pub fn zstat(req: &Req) -> R<String> {
	let w = req.u64("w")?;
	let samples = req.u64("samples")?;
	let seed = req.u64("seed")?;
	let a = f64::from_bits(req.u64("a")?);
	let b = f64::from_bits(req.u64("b")?);
	if samples > 4_000_000_000 || (w != 32 && w != 64) {
		return Err(Bad);
	}
	match req.opt("gen").unwrap_or("xoshiro") {
		"xoshiro" => runz(Xoshiro256::from_seed(seed), w, a, b, samples),
		"splitmix" => runz(SplitMix64::from_seed(seed), w, a, b, samples),
		"wyrand" => runz(Wyrand::from_seed(seed), w, a, b, samples),
		_ => Err(Bad),
	}
}


/// `zfind a=<mean f64 bits> b=<sd f64 bits> iters=<N> seed=<s> max=<K>`: f32 z-scores in (-4, 4) on which a PLAUSIBLE ALTERNATIVE evaluation of
/// `mean + sd*z` (through f64: fused or unfused, rounded to f32 afterwards) differs from both evaluations in f32 itself (fused, unfused) -
/// the inputs on which a sampler that goes through the wider type can be told from one that does not (fused through f64 != fused in f32, or unfused through f64 != unfused in f32). Answers the z bit patterns found.
pub fn zfind(req: &Req) -> R<String> {
	let m = f64::from_bits(req.u64("a")?) as f32;
	let sd = f64::from_bits(req.u64("b")?) as f32;
	let iters = req.u64("iters")?;
	let max = req.usize("max")?;
	let mut x = req.u64("seed")? | 1;
	let mut out: Vec<String> = Vec::new();
	for _ in 0..iters {
		// xorshift64*: an unrelated generator of our own
		x ^= x >> 12;
		x ^= x << 25;
		x ^= x >> 27;
		let w = x.wrapping_mul(0x2545F4914F6CDD1D);
		// a float in [1, 8) from 23 mantissa bits and 3 exponent choices, halved to (-4, 4) with a random sign
		let e = 127 + (w >> 60) as u32 % 3;
		let z = f32::from_bits(((w >> 63) as u32) << 31 | e << 23 | ((w >> 20) as u32 & 0x7FFFFF)) * 0.5;
		let (c1, c2) = (sd.mul_add(z, m), sd * z + m);
		let a1 = (sd as f64).mul_add(z as f64, m as f64) as f32;
		let a2 = ((sd as f64) * (z as f64) + (m as f64)) as f32;
		// (fused vs unfused in f32 differ on a fair share of all z and are not interesting by themselves; the evaluations through f64 differ
		// from their f32 counterparts on about one z in 2^30)
		let _ = (a2, c2);
		if a1.to_bits() != c1.to_bits() {
			out.push(z.to_bits().to_string());
			if out.len() >= max {
				break;
			}
		}
	}
	Ok(format!("z:{}", out.join(",")))
}
