//! Outcome frequencies of the sequence operations under a REAL generator (statistical violation search for
//! C05, C06, C07: model-free, sound for any implementation; the exact claims are the theorems).
//!
//! `stat kind=<single|choose|multi|shuf|pshuf|index> n=<items> k=<slots> samples=<N> seed=<s> [hint=..] [gen=..]`
//! answers `outcome=count;...` (outcomes as in `enum`).
use crate::util::*;
use std::collections::BTreeMap;
use urandom::rng::*;
use urandom::{Random, Rng};

fn run<G: Rng>(mut r: Random<G>, kind: &str, n: usize, k: usize, samples: u64, hint: Option<&str>) -> R<String> {
	let items: Vec<u64> = (0..n as u64).collect();
	let mut counts: BTreeMap<String, u64> = BTreeMap::new();
	for _ in 0..samples {
		let outcome = match kind {
			"shuf" => {
				let mut a = items.clone();
				r.shuffle(&mut a[..]);
				join(&a, ",")
			}
			"pshuf" => {
				let mut a = items.clone();
				r.partial_shuffle(&mut a[..], k);
				join(&a[..usize::min(k, n)], ",")
			}
			"multi" => {
				let mut buf = vec![u64::MAX; k];
				let cnt = match hint {
					None => r.multiple(items.iter().copied(), &mut buf[..]),
					h => r.multiple(crate::distr::hinted(&items, h), &mut buf[..]),
				};
				let mut s: Vec<u64> = buf[..cnt].to_vec();
				s.sort();
				join(&s, ",")
			}
			"choose" => match r.choose(&items[..]).copied() {
				Some(v) => v.to_string(),
				None => "none".into(),
			},
			"single" => match match hint {
				None => r.single(items.iter().copied()),
				h => r.single(crate::distr::hinted(&items, h)),
			} {
				Some(v) => v.to_string(),
				None => "none".into(),
			},
			"index" => r.index(n).to_string(),
			_ => return Err(Bad),
		};
		*counts.entry(outcome).or_insert(0) += 1;
	}
	let parts: Vec<String> = counts.iter().map(|(k, v)| format!("{}={}", k, v)).collect();
	Ok(parts.join(";"))
}

pub fn stat(req: &Req) -> R<String> {
	let kind = req.get("kind")?;
	let n = req.usize("n")?;
	let k = req.usize("k")?;
	let samples = req.u64("samples")?;
	let seed = req.u64("seed")?;
	let hint = req.opt("hint");
	if samples > 50_000_000 || n > 64 {
		return Err(Bad);
	}
	match req.opt("gen").unwrap_or("xoshiro") {
		"xoshiro" => run(Xoshiro256::from_seed(seed), kind, n, k, samples, hint),
		"splitmix" => run(SplitMix64::from_seed(seed), kind, n, k, samples, hint),
		"wyrand" => run(Wyrand::from_seed(seed), kind, n, k, samples, hint),
		"chacha8" => run(ChaCha8::from_seed(seed), kind, n, k, samples, hint),
		_ => Err(Bad),
	}
}
