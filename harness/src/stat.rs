//! Outcome frequencies of the sequence operations under a REAL generator (statistical violation search for
//! C05, C06, C07: model-free, sound for any implementation; the exact claims are the theorems).
//!
//! `stat kind=<single|choose|multi|shuf|pshuf|index> n=<items> k=<slots> samples=<N> seed=<s> [hint=..] [gen=..]`
//! answers `outcome=count;...` (outcomes as in `enum`).
use crate::util::*;
use std::collections::BTreeMap;
use urandom::rng::*;
use urandom::{Random, Rng};

fn run<G: Rng>(mut r: Random<G>, kind: &str, n: usize, k: usize, samples: u64, hint: Option<&str>) -> R<String> {
	let items: Vec<u64> = (0..n as u64).collect();
	let mut counts: BTreeMap<String, u64> = BTreeMap::new();
	for _ in 0..samples {
		let outcome = match kind {
			"shuf" => {
				let mut a = items.clone();
				r.shuffle(&mut a[..]);
				join(&a, ",")
			}
			"pshuf" => {
				let mut a = items.clone();
				r.partial_shuffle(&mut a[..], k);
				join(&a[..usize::min(k, n)], ",")
			}
			"multi" => {
				let mut buf = vec![u64::MAX; k];
				let cnt = match hint {
					None => r.multiple(items.iter().copied(), &mut buf[..]),
					h => r.multiple(crate::distr::hinted(&items, h), &mut buf[..]),
				};
				let mut s: Vec<u64> = buf[..cnt].to_vec();
				s.sort();
				join(&s, ",")
			}
			"choose" => match r.choose(&items[..]).copied() {
				Some(v) => v.to_string(),
				None => "none".into(),
			},
			"single" => match match hint {
				None => r.single(items.iter().copied()),
				h => r.single(crate::distr::hinted(&items, h)),
			} {
				Some(v) => v.to_string(),
				None => "none".into(),
			},
			"index" => r.index(n).to_string(),
			// large slices: in which quarter of the slice does element `k` end up (shuffle) / from which quarter does the element at position `k` come (partial_shuffle(k+1))
			"shufpos" => {
				let mut a = items.clone();
				r.shuffle(&mut a[..]);
				(a.iter().position(|&x| x == k as u64).unwrap_or(usize::MAX) * 4 / n).to_string()
			}
			"pshufpos" => {
				let mut a = items.clone();
				r.partial_shuffle(&mut a[..], k + 1);
				(a[k] as usize * 4 / n).to_string()
			}
			_ => return Err(Bad),
		};
		*counts.entry(outcome).or_insert(0) += 1;
	}
	let parts: Vec<String> = counts.iter().map(|(k, v)| format!("{}={}", k, v)).collect();
	Ok(parts.join(";"))
}

pub fn stat(req: &Req) -> R<String> {
	let kind = req.get("kind")?;
	let n = req.usize("n")?;
	let k = req.usize("k")?;
	let samples = req.u64("samples")?;
	let seed = req.u64("seed")?;
	let hint = req.opt("hint");
	if samples > 50_000_000 || (n > 64 && !kind.ends_with("pos")) || n > 1 << 22 {
		return Err(Bad);
	}
	// `pre=`: ops run first (a byte fill misaligns a block generator's buffer: the draws then straddle word and block boundaries)
	let pre = req.strs("pre");
	macro_rules! go {
		($g:expr) => {{
			let mut r = $g;
			for op in &pre {
				crate::word::run_op_noclone(&mut r, op)?;
			}
			run(r, kind, n, k, samples, hint)
		}};
	}
	match req.opt("gen").unwrap_or("xoshiro") {
		"xoshiro" => go!(Xoshiro256::from_seed(seed)),
		"splitmix" => go!(SplitMix64::from_seed(seed)),
		"wyrand" => go!(Wyrand::from_seed(seed)),
		"chacha8" => go!(ChaCha8::from_seed(seed)),
		_ => Err(Bad),
	}
}

/// `statd dist=<norm|exp|expl|normal|lognormal> w=<32|64> [a=<f64 bits>] [b=<f64 bits>] samples=<N> seed=<s> [gen=..] edges=<f64 bits,...>`
/// answers the number of samples in each of the `edges.len()+1` bins `(-inf,e0), [e0,e1), ..., [e_last, +inf)` and, last, the NaN count.
/// f32 samples are widened (exactly) before binning.
fn rund<G: Rng>(mut r: Random<G>, dist: &str, w: u64, a: f64, b: f64, samples: u64, edges: &[f64]) -> R<String> {
	use urandom::distr::*;
	let mut counts = vec![0u64; edges.len() + 2];
	let nan_slot = edges.len() + 1;
	macro_rules! go {
		($sampler:expr) => {{
			for _ in 0..samples {
				let x: f64 = $sampler;
				if x.is_nan() {
					counts[nan_slot] += 1;
				}
				else {
					counts[edges.partition_point(|e| *e <= x)] += 1;
				}
			}
		}};
	}
	match (dist, w) {
		("norm", 64) => go!(r.sample::<f64, _>(&StandardNormal)),
		("norm", 32) => go!(r.sample::<f32, _>(&StandardNormal) as f64),
		("exp", 64) => go!(r.sample::<f64, _>(&Exp1)),
		("exp", 32) => go!(r.sample::<f32, _>(&Exp1) as f64),
		("expl", 64) => {
			let d = Exp::<f64>::new(a);
			go!(r.sample::<f64, _>(&d))
		}
		("expl", 32) => {
			let d = Exp::<f32>::new(a as f32);
			go!(r.sample::<f32, _>(&d) as f64)
		}
		("normal", 64) => {
			let d = Normal::<f64>::new(a, b);
			go!(r.sample::<f64, _>(&d))
		}
		("normal", 32) => {
			let d = Normal::<f32>::new(a as f32, b as f32);
			go!(r.sample::<f32, _>(&d) as f64)
		}
		("lognormal", 64) => {
			let d = LogNormal::<f64>::new(a, b);
			go!(r.sample::<f64, _>(&d))
		}
		("lognormal", 32) => {
			let d = LogNormal::<f32>::new(a as f32, b as f32);
			go!(r.sample::<f32, _>(&d) as f64)
		}
		_ => return Err(Bad),
	}
	Ok(join(&counts, ","))
}

pub fn statd(req: &Req) -> R<String> {
	let dist = req.get("dist")?;
	let w = req.u64("w")?;
	let samples = req.u64("samples")?;
	let seed = req.u64("seed")?;
	let a = f64::from_bits(req.opt_u64("a")?.unwrap_or(0));
	let b = f64::from_bits(req.opt_u64("b")?.unwrap_or(0));
	let edges: Vec<f64> = req.list_u64("edges")?.into_iter().map(f64::from_bits).collect();
	if samples > 2_000_000_000 || edges.windows(2).any(|p| !(p[0] < p[1])) {
		return Err(Bad);
	}
	let pre = req.strs("pre");
	macro_rules! go {
		($g:expr) => {{
			let mut r = $g;
			for op in &pre {
				crate::word::run_op_noclone(&mut r, op)?;
			}
			rund(r, dist, w, a, b, samples, &edges)
		}};
	}
	match req.opt("gen").unwrap_or("xoshiro") {
		"xoshiro" => go!(Xoshiro256::from_seed(seed)),
		"splitmix" => go!(SplitMix64::from_seed(seed)),
		"wyrand" => go!(Wyrand::from_seed(seed)),
		"chacha8" => go!(ChaCha8::from_seed(seed)),
		_ => Err(Bad),
	}
}


/// `zstat w=<32|64> a=<mean, f64 bits> b=<sd, f64 bits> samples=<N> seed=<s> [gen=..]`: under a real generator, every `Normal(a, b)` sample is
/// compared with `mean + sd*z` (fused and unfused, in the sample's own type, computed HERE by the platform) for the standard-normal
/// sample `z` that a clone of the generator draws from the same position of the stream.  Answers
/// `<mismatches>:<index of the first>:<z bits>:<sample bits>:<fused bits>:<unfused bits>` (a search over streams for the rare inputs on which an
/// implementation that, say, goes through a wider type rounds differently).
fn runz<G: Rng + Clone>(mut r: Random<G>, w: u64, a: f64, b: f64, samples: u64) -> R<String> {
	use urandom::distr::*;
	let (mut bad, mut first) = (0u64, String::new());
	if w == 32 {
		let (m, sd) = (a as f32, b as f32);
		let d = Normal::<f32>::new(m, sd);
		for i in 0..samples {
			let mut twin = r.clone();
			let z: f32 = twin.sample(&StandardNormal);
			let s: f32 = r.sample(&d);
			let (c1, c2) = (sd.mul_add(z, m), sd * z + m);
			if !(s.to_bits() == c1.to_bits() || s.to_bits() == c2.to_bits() || (s.is_nan() && (c1.is_nan() || c2.is_nan()))) {
				if bad == 0 {
					first = format!("{}:{}:{}:{}:{}", i, z.to_bits(), s.to_bits(), c1.to_bits(), c2.to_bits());
				}
				bad += 1;
			}
		}
	}
	else {
		let d = Normal::<f64>::new(a, b);
		for i in 0..samples {
			let mut twin = r.clone();
			let z: f64 = twin.sample(&StandardNormal);
			let s: f64 = r.sample(&d);
			let (c1, c2) = (b.mul_add(z, a), b * z + a);
			if !(s.to_bits() == c1.to_bits() || s.to_bits() == c2.to_bits() || (s.is_nan() && (c1.is_nan() || c2.is_nan()))) {
				if bad == 0 {
					first = format!("{}:{}:{}:{}:{}", i, z.to_bits(), s.to_bits(), c1.to_bits(), c2.to_bits());
				}
				bad += 1;
			}
		}
	}
	Ok(format!("{}:{}", bad, if bad == 0 { "-".to_string() } else { first }))
}

pub fn zstat(req: &Req) -> R<String> {
	let w = req.u64("w")?;
	let samples = req.u64("samples")?;
	let seed = req.u64("seed")?;
	let a = f64::from_bits(req.u64("a")?);
	let b = f64::from_bits(req.u64("b")?);
	if samples > 4_000_000_000 || (w != 32 && w != 64) {
		return Err(Bad);
	}
	match req.opt("gen").unwrap_or("xoshiro") {
		"xoshiro" => runz(Xoshiro256::from_seed(seed), w, a, b, samples),
		"splitmix" => runz(SplitMix64::from_seed(seed), w, a, b, samples),
		"wyrand" => runz(Wyrand::from_seed(seed), w, a, b, samples),
		_ => Err(Bad),
	}
}


/// `zfind a=<mean f64 bits> b=<sd f64 bits> iters=<N> seed=<s> max=<K>`: f32 z-scores in (-4, 4) on which a PLAUSIBLE ALTERNATIVE evaluation of
/// `mean + sd*z` (through f64: fused or unfused, rounded to f32 afterwards) differs from both evaluations in f32 itself (fused, unfused) -
/// the inputs on which a sampler that goes through the wider type can be told from one that does not (fused through f64 != fused in f32, or unfused through f64 != unfused in f32). Answers the z bit patterns found.
pub fn zfind(req: &Req) -> R<String> {
	let m = f64::from_bits(req.u64("a")?) as f32;
	let sd = f64::from_bits(req.u64("b")?) as f32;
	let iters = req.u64("iters")?;
	let max = req.usize("max")?;
	let mut x = req.u64("seed")? | 1;
	let mut out: Vec<String> = Vec::new();
	for _ in 0..iters {
		// xorshift64*: an unrelated generator of our own
		x ^= x >> 12;
		x ^= x << 25;
		x ^= x >> 27;
		let w = x.wrapping_mul(0x2545F4914F6CDD1D);
		// a float in [1, 8) from 23 mantissa bits and 3 exponent choices, halved to (-4, 4) with a random sign
		let e = 127 + (w >> 60) as u32 % 3;
		let z = f32::from_bits(((w >> 63) as u32) << 31 | e << 23 | ((w >> 20) as u32 & 0x7FFFFF)) * 0.5;
		let (c1, c2) = (sd.mul_add(z, m), sd * z + m);
		let a1 = (sd as f64).mul_add(z as f64, m as f64) as f32;
		let a2 = ((sd as f64) * (z as f64) + (m as f64)) as f32;
		// (fused vs unfused in f32 differ on a fair share of all z and are not interesting by themselves; the evaluations through f64 differ
		// from their f32 counterparts on about one z in 2^30)
		// (on these z the fused evaluation through f64 lands on an f32 midpoint and ties to even - which is also what the UNFUSED f32 evaluation
		// does there, so a1 == c2 != c1 on every such z: an oracle has to know which evaluation the implementation uses elsewhere)
		let _ = (a2, c2);
		if a1.to_bits() != c1.to_bits() && !out.contains(&z.to_bits().to_string()) {
			out.push(z.to_bits().to_string());
			if out.len() >= max {
				break;
			}
		}
	}
	Ok(format!("z:{}", out.join(",")))
}


/// `seedfind iters=<N> seed=<s> max=<K>`: seeds whose DOCUMENTED Xoshiro256 expansion (four successive SplitMix64 outputs - the published
/// algorithm, implemented here, not the crate's) has TWO structured state words at once (sparse: <= 16 bits set, dense: >= 48, >= 16 leading
/// zeros, >= 16 trailing zeros). Found by inversion: a structured word is drawn, the seed that puts it at position k is computed with the
/// inverse of mix64, and the other three words are looked at; up to K seeds per (position pair, class pair). A guard in a seeding routine that
/// looks at the quality of two state words is keyed on such seeds (about one seed in 10^8; one in 10^10 for a particular pair).
pub fn seedfind(req: &Req) -> R<String> {
	const GAMMA: u64 = 0x9e3779b97f4a7c15;
	fn mix64(mut z: u64) -> u64 {
		z = (z ^ (z >> 30)).wrapping_mul(0xbf58476d1ce4e5b9);
		z = (z ^ (z >> 27)).wrapping_mul(0x94d049bb133111eb);
		z ^ (z >> 31)
	}
	fn unxorshift(y: u64, k: u32) -> u64 {
		let mut x = y;
		let mut s = k;
		while s < 64 {
			x = y ^ (x >> k);
			s += k;
		}
		x
	}
	fn unmix64(mut z: u64) -> u64 {
		z = unxorshift(z, 31);
		z = z.wrapping_mul(0x319642b2d24d8ec3);
		z = unxorshift(z, 27);
		z = z.wrapping_mul(0x96de1b173f119089);
		unxorshift(z, 30)
	}
	fn class(w: u64) -> Option<usize> {
		let pc = w.count_ones();
		if pc <= 16 { Some(0) } else if pc >= 48 { Some(1) } else if w.leading_zeros() >= 16 { Some(2) } else if w.trailing_zeros() >= 16 { Some(3) } else { None }
	}
	let iters = req.u64("iters")?;
	let max = req.usize("max")?;
	let mut x = req.u64("seed")? | 1;
	let mut next = move || {
		x ^= x >> 12;
		x ^= x << 25;
		x ^= x >> 27;
		x.wrapping_mul(0x2545F4914F6CDD1D)
	};
	fn extreme(w: u64, c: usize) -> u32 {
		match c { 0 => 64 - w.count_ones(), 1 => w.count_ones(), 2 => w.leading_zeros(), _ => w.trailing_zeros() }
	}
	// per bucket the K MOST EXTREME seeds (a guard may use a tighter threshold than the classes here)
	let mut buckets = std::collections::BTreeMap::<(usize, usize, usize, usize), Vec<(u32, u64)>>::new();
	for _ in 0..iters {
		let r = next();
		let c0 = (r & 3) as usize;
		let k0 = ((r >> 2) & 3) as usize;
		// a structured word of class c0
		let a = next();
		let w = match c0 {
			0 => { let mut v = 0u64; for j in 0..(1 + (r >> 8) % 16) { v |= 1u64 << ((a >> (6 * (j % 10))).wrapping_add(j * 7) % 64); } v }
			1 => { let mut v = !0u64; for j in 0..(1 + (r >> 8) % 16) { v &= !(1u64 << ((a >> (6 * (j % 10))).wrapping_add(j * 7) % 64)); } v }
			2 => a >> (16 + (r >> 8) % 32),
			_ => a << (16 + (r >> 8) % 32),
		};
		if class(w) != Some(c0) { continue; }
		// the seed that makes state word k0 equal to w: word k = mix64(seed + (k+1) * GAMMA)
		let seed = unmix64(w).wrapping_sub(GAMMA.wrapping_mul(k0 as u64 + 1));
		debug_assert_eq!(mix64(seed.wrapping_add(GAMMA.wrapping_mul(k0 as u64 + 1))), w);
		for k1 in 0..4 {
			if k1 == k0 { continue; }
			let w1 = mix64(seed.wrapping_add(GAMMA.wrapping_mul(k1 as u64 + 1)));
			if let Some(c1) = class(w1) {
				let b = buckets.entry((k0.min(k1), k0.max(k1), if k0 < k1 { c0 } else { c1 }, if k0 < k1 { c1 } else { c0 })).or_default();
				let score = extreme(w, c0).min(extreme(w1, c1));
				if !b.iter().any(|e| e.1 == seed) {
					b.push((score, seed));
					b.sort_by(|x, y| y.0.cmp(&x.0));
					b.truncate(max);
				}
			}
		}
	}
	let mut out: Vec<String> = Vec::new();
	for (_, v) in buckets {
		for (_, sd) in v {
			out.push(sd.to_string());
		}
	}
	// whole-state outliers: the seeds with the lightest and the heaviest 256-bit state. One state word of weight <= 5 (or >= 59) is enumerated
	// exhaustively in each position and the seed recovered by inversion; the other three words are then whatever the expansion gives, so the
	// best of 4 * 2 * 8.3e6 candidates reach beyond 8 sigma of the Binomial(256, 1/2) weight - a blind search would need 1e15 seeds for that
	let mut light: Vec<(u32, u64)> = Vec::new();
	let mut heavy: Vec<(u32, u64)> = Vec::new();
	let keep = 2 * max;
	let mut consider = |w: u64, light: &mut Vec<(u32, u64)>, heavy: &mut Vec<(u32, u64)>| {
		for k0 in 0..4u64 {
			let seed = unmix64(w).wrapping_sub(GAMMA.wrapping_mul(k0 + 1));
			let mut t = 0u32;
			for k in 1..=4u64 { t += mix64(seed.wrapping_add(GAMMA.wrapping_mul(k))).count_ones(); }
			if light.len() < keep || t < light[light.len() - 1].0 {
				if !light.iter().any(|e| e.1 == seed) { light.push((t, seed)); light.sort(); light.truncate(keep); }
			}
			if heavy.len() < keep || t > heavy[heavy.len() - 1].0 {
				if !heavy.iter().any(|e| e.1 == seed) { heavy.push((t, seed)); heavy.sort_by(|x, y| y.cmp(x)); heavy.truncate(keep); }
			}
		}
	};
	let depth = req.get("weight").ok().and_then(|v| v.parse::<usize>().ok()).unwrap_or(5);
	fn rec(base: u64, from: u32, left: usize, f: &mut dyn FnMut(u64)) {
		f(base);
		if left == 0 { return; }
		for b in from..64 { rec(base | 1u64 << b, b + 1, left - 1, f); }
	}
	rec(0, 0, depth, &mut |w| { consider(w, &mut light, &mut heavy); consider(!w, &mut light, &mut heavy); });
	for (_, sd) in light.iter().chain(heavy.iter()) { out.push(sd.to_string()); }
	Ok(format!("seeds:{} light:{} heavy:{}", out.join(","), light.first().map(|e| e.0).unwrap_or(0), heavy.first().map(|e| e.0).unwrap_or(0)))
}


// ---- sizes of 2^32 and more (a 32-bit counter, cast or index anywhere on the way is only visible there) -------------------------------

fn big_gen_words(gen: &str, seed: u64, pre32: usize) -> Option<Box<dyn FnMut() -> u64>> {
	macro_rules! mk {
		($g:expr) => {{
			let mut r = $g;
			for _ in 0..pre32 {
				r.next_u32();
			}
			Some(Box::new(move || r.next_u64()) as Box<dyn FnMut() -> u64>)
		}};
	}
	match gen {
		"xoshiro" => mk!(Xoshiro256::from_seed(seed)),
		"splitmix" => mk!(SplitMix64::from_seed(seed)),
		"wyrand" => mk!(Wyrand::from_seed(seed)),
		_ => None,
	}
}

/// `bigfill gen=<xoshiro|splitmix|wyrand|chacha8|chacha20> seed=<s> pre32=<number of next_u32 draws first> len=<L> api=<fill_bytes|read>`:
/// one fill of `L` bytes (4 GiB and more; zeroed lazily mapped memory). Answers, for the word generators, whether the bytes are the little-endian
/// stream of the successive `next_u64` of a clone (`le:ok` / `le:<first differing byte>`); for all: the number of 4 KiB windows (every 1 MiB,
/// plus the ends and both sides of every multiple of 2^32) that are still all zero, the reported length, and whether the generator afterwards
/// continues like a clone that was advanced by chunked fills (word generators only).
pub fn bigfill(req: &Req) -> R<String> {
	use std::io::Read as _;
	let gen = req.get("gen")?;
	let seed = req.u64("seed")?;
	let pre32 = req.usize("pre32")?;
	let len = req.usize("len")?;
	if len > (1usize << 33) + 4096 {
		return Err(Bad);
	}
	let mut buf = vec![0u8; len];
	let mut reported = String::from("-");
	macro_rules! run {
		($g:expr) => {{
			let mut r = $g;
			for _ in 0..pre32 {
				r.next_u32();
			}
			match req.get("api")? {
				"read" => {
					reported = match r.read(&mut buf[..]) {
						Ok(n) => n.to_string(),
						Err(_) => "err".into(),
					}
				}
				_ => {
					r.fill_bytes(&mut buf[..]);
				}
			}
			r.next_u64()
		}};
	}
	let next = match gen {
		"xoshiro" => run!(Xoshiro256::from_seed(seed)),
		"splitmix" => run!(SplitMix64::from_seed(seed)),
		"wyrand" => run!(Wyrand::from_seed(seed)),
		"chacha8" => run!(ChaCha8::from_seed(seed)),
		"chacha20" => run!(ChaCha20::from_seed(seed)),
		_ => return Err(Bad),
	};
	// untouched windows
	let mut starts: Vec<usize> = (0..len / (1 << 20)).map(|i| i << 20).collect();
	let mut k = 1usize << 32;
	while k <= len {
		starts.push(k - 4096);
		if k + 4096 <= len {
			starts.push(k);
		}
		k += 1usize << 32;
	}
	if len >= 4096 {
		starts.push(len - 4096);
	}
	let zero_windows = starts.iter().filter(|&&s| s + 4096 <= len && buf[s..s + 4096].iter().all(|&b| b == 0)).count();
	// little-endian word stream (word generators)
	let mut le = String::from("-");
	let mut cont = String::from("-");
	if let Some(mut words) = big_gen_words(gen, seed, pre32) {
		le = "ok".into();
		let mut i = 0usize;
		while i < len {
			let w = words().to_le_bytes();
			let n = usize::min(8, len - i);
			if buf[i..i + n] != w[..n] {
				le = (i + (0..n).find(|&j| buf[i + j] != w[j]).unwrap()).to_string();
				break;
			}
			i += 8;
		}
		if le == "ok" {
			cont = if words() == next { "ok".into() } else { "differs".into() };
		}
	}
	Ok(format!("le:{} zero_windows:{} of:{} ret:{} cont:{}", le, zero_windows, starts.len(), reported, cont))
}

/// `bigmulti n=<N> k=<k> seed=<s> gen=<..>`: `multiple(0..N, buf of k)` under a real generator; answers the k kept items
pub fn bigmulti(req: &Req) -> R<String> {
	let n = req.u64("n")?;
	let k = req.usize("k")?;
	let seed = req.u64("seed")?;
	if k > 16 || n > (1u64 << 33) + 4096 {
		return Err(Bad);
	}
	let mut buf = vec![u64::MAX; k];
	macro_rules! go {
		($g:expr) => {{
			let mut r = $g;
			r.multiple(0..n, &mut buf[..])
		}};
	}
	let cnt = match req.opt("gen").unwrap_or("xoshiro") {
		"xoshiro" => go!(Xoshiro256::from_seed(seed)),
		"splitmix" => go!(SplitMix64::from_seed(seed)),
		"wyrand" => go!(Wyrand::from_seed(seed)),
		_ => return Err(Bad),
	};
	Ok(format!("ok:{}:{}", cnt, join(&buf, ",")))
}

/// `bigsingle n=<N> seed=<s> gen=<..>`: `single((0..N).filter(|_| true))` (no usable size hint: the reservoir path) under a real generator
pub fn bigsingle(req: &Req) -> R<String> {
	let n = req.u64("n")?;
	let seed = req.u64("seed")?;
	if n > (1u64 << 33) + 4096 {
		return Err(Bad);
	}
	macro_rules! go {
		($g:expr) => {{
			let mut r = $g;
			r.single((0..n).filter(|_| true))
		}};
	}
	let res = match req.opt("gen").unwrap_or("xoshiro") {
		"xoshiro" => go!(Xoshiro256::from_seed(seed)),
		"splitmix" => go!(SplitMix64::from_seed(seed)),
		"wyrand" => go!(Wyrand::from_seed(seed)),
		_ => return Err(Bad),
	};
	Ok(match res {
		Some(v) => format!("ok:{}", v),
		None => "ok:none".into(),
	})
}
