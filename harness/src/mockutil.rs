//! Scripted words through `Mock::slice`, with the number of words consumed observed afterwards.
use std::panic::{catch_unwind, AssertUnwindSafe};
use urandom::rng::Mock;
use urandom::{Distribution, Random, Rng};

pub type MockRand<'a> = Random<Mock<std::iter::Copied<std::slice::Iter<'a, u64>>>>;

/// Number of words still unread (drains the mock; call last).
pub fn remaining(r: &mut MockRand) -> usize {
	let mut n = 0;
	loop {
		match catch_unwind(AssertUnwindSafe(|| r.next_u64())) {
			Ok(_) => n += 1,
			Err(_) => return n,
		}
	}
}

/// Runs `f` on a mock over `words`; `Some((result, consumed))`, or `None` if it panicked.
pub fn with_mock<T>(words: &[u64], f: impl FnOnce(&mut MockRand) -> T) -> Option<(T, usize)> {
	let mut r = Mock::slice(words);
	match catch_unwind(AssertUnwindSafe(|| f(&mut r))) {
		Ok(v) => {
			let rem = remaining(&mut r);
			Some((v, words.len() - rem))
		}
		Err(_) => {
			// a panic with scripted words still unread is not the mock running dry: reported as ` wleft=<n>` after `panic`
			let rem = remaining(&mut r);
			WLEFT.with(|w| w.set(rem));
			None
		}
	}
}

thread_local! {
	/// words left unread when the last `with_mock` closure panicked (0: the mock ran dry, or no panic)
	pub static WLEFT: std::cell::Cell<usize> = std::cell::Cell::new(0);
}


thread_local! {
	/// how the current request wants its samples drawn (`path=` key): the API path is part of the input space
	pub static PATH: std::cell::RefCell<String> = std::cell::RefCell::new(String::new());
}

/// `n` samples of `d`, drawn along the API path the request names: `Random::sample` (default), the `samples()` iterator adapter,
/// the `Distribution` trait method called directly, through the blanket impl for references, or with the generator behind
/// `Random<dyn Rng>` (type-erased: every generator method goes through the vtable).
pub fn draw<T, D: Distribution<T>>(r: &mut MockRand, d: &D, n: usize) -> Vec<T> {
	let path = PATH.with(|p| p.borrow().clone());
	match path.as_str() {
		"" | "sample" => (0..n).map(|_| r.sample(d)).collect(),
		"samples" => r.samples(d).take(n).collect(),
		"trait" => (0..n).map(|_| Distribution::sample(d, r)).collect(),
		"ref" => (0..n).map(|_| Distribution::sample(&d, r)).collect(),
		"dyn" => {
			let rr: &mut Random<dyn Rng + '_> = r;
			(0..n).map(|_| rr.sample(d)).collect()
		}
		"dynsamples" => {
			let rr: &mut Random<dyn Rng + '_> = r;
			rr.samples(d).take(n).collect()
		}
		_ => (0..n).map(|_| r.sample(d)).collect(),
	}
}
