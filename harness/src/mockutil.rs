//! Scripted words through `Mock::slice`, with the number of words consumed observed afterwards.
use std::panic::{catch_unwind, AssertUnwindSafe};
use urandom::rng::Mock;
use urandom::Random;

pub type MockRand<'a> = Random<Mock<std::iter::Copied<std::slice::Iter<'a, u64>>>>;

/// Number of words still unread (drains the mock; call last).
pub fn remaining(r: &mut MockRand) -> usize {
	let mut n = 0;
	loop {
		match catch_unwind(AssertUnwindSafe(|| r.next_u64())) {
			Ok(_) => n += 1,
			Err(_) => return n,
		}
	}
}

/// Runs `f` on a mock over `words`; `Some((result, consumed))`, or `None` if it panicked.
pub fn with_mock<T>(words: &[u64], f: impl FnOnce(&mut MockRand) -> T) -> Option<(T, usize)> {
	let mut r = Mock::slice(words);
	match catch_unwind(AssertUnwindSafe(|| f(&mut r))) {
		Ok(v) => {
			let rem = remaining(&mut r);
			Some((v, words.len() - rem))
		}
		Err(_) => None,
	}
}
