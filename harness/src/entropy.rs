//! Scripted system entropy (C17).  Built without the crate's `getrandom` feature, `urandom` links
//! against `extern "C" fn getentropy_raw`, which this module provides: successful fetch number `k`
//! delivers the tagged words `((k+1) << 16) | j`; a failing fetch scribbles `0xEE` over the whole
//! destination before reporting failure.
use crate::util::*;
use std::collections::VecDeque;
use std::panic::{catch_unwind, AssertUnwindSafe};
use std::sync::Mutex;
use urandom::rng::System;
use urandom::{Random, Rng};

pub struct Entropy {
	pub fetches: u64,
	pub script: VecDeque<bool>,
	pub log: Vec<(u64, usize, bool)>,
}

pub static ENTROPY: Mutex<Entropy> = Mutex::new(Entropy { fetches: 0, script: VecDeque::new(), log: Vec::new() });

#[cfg(not(feature = "gr"))]
#[no_mangle]
pub extern "C" fn getentropy_raw(ptr: *mut u8, len: usize) -> bool {
	let mut e = ENTROPY.lock().unwrap_or_else(|p| p.into_inner());
	let k = e.fetches;
	let ok = e.script.pop_front().unwrap_or(true);
	e.fetches += 1;
	e.log.push((k, len, ok));
	let dst = unsafe { std::slice::from_raw_parts_mut(ptr, len) };
	for (i, b) in dst.iter_mut().enumerate() {
		*b = if ok {
			let word: u32 = ((((k + 1) % 65536) as u32) << 16) | ((i / 4) % 65536) as u32;
			word.to_le_bytes()[i % 4]
		} else {
			0xEE
		};
	}
	ok
}

pub fn reset(script: &[&str]) {
	let mut e = ENTROPY.lock().unwrap_or_else(|p| p.into_inner());
	e.fetches = 0;
	e.script = script.iter().map(|s| *s != "fail").collect();
	e.log.clear();
}

fn op_on<G: Rng + ?Sized>(r: &mut Random<G>, op: &str) -> R<String> {
	let res = catch_unwind(AssertUnwindSafe(|| -> R<String> {
		Ok(match op {
			"u32" => r.next_u32().to_string(),
			"u64" => r.next_u64().to_string(),
			"jump" => {
				r.jump();
				"-".to_string()
			}
			_ => {
				let n: usize = op.strip_prefix("fill:").ok_or(Bad)?.parse().map_err(|_| Bad)?;
				let mut buf = vec![0u8; n];
				r.fill_bytes(&mut buf[..]);
				format!("b:{}", hex(&buf))
			}
		})
	}));
	match res {
		Ok(x) => x,
		Err(_) => Ok("panic".to_string()),
	}
}

fn go<const N: usize>(req: &Req) -> R<String> {
	reset(&req.strs("script"));
	let mut r = System::<N>::new();
	let mut out = Vec::new();
	for op in req.strs("ops") {
		out.push(op_on(&mut r, op)?);
	}
	Ok(out.join(" "))
}

pub fn system(req: &Req) -> R<String> {
	match req.u64("n")? {
		0 => go::<0>(req),
		1 => go::<1>(req),
		2 => go::<2>(req),
		3 => go::<3>(req),
		4 => go::<4>(req),
		5 => go::<5>(req),
		7 => go::<7>(req),
		8 => go::<8>(req),
		31 => go::<31>(req),
		64 => go::<64>(req),
		// blocks of more than 256 bytes (a fetch in pieces must still fill every word)
		65 => go::<65>(req),
		100 => go::<100>(req),
		127 => go::<127>(req),
		128 => go::<128>(req),
		200 => go::<200>(req),
		1000 => go::<1000>(req),
		_ => Err(Bad),
	}
}

pub fn newgen(req: &Req) -> R<String> {
	use urandom::rng::{ChaCha12, ChaCha20, ChaCha8, SplitMix64, Wyrand, Xoshiro256};
	reset(&req.strs("script"));
	let js = |s: String| format!("st:{}", join(&json_numbers(&s), ","));
	Ok(match req.get("gen")? {
		"xoshiro" => js(serde_json::to_string(&Xoshiro256::new()).map_err(|_| Bad)?),
		// the crate-level entry point `urandom::new()` returns an opaque `Random<impl Rng + Clone>`; its state is read back from memory when the
		// value has the size of the four state words (`Random` and the generator are plain wrappers), otherwise it is reported as unreadable
		"libnew" => {
			let r = urandom::new();
			if std::mem::size_of_val(&r) != 32 {
				return Ok("st:unreadable".into());
			}
			let st: [u64; 4] = unsafe { std::mem::transmute_copy(&r) };
			format!("st:{}", join(&st, ","))
		}
		"splitmix" => js(serde_json::to_string(&SplitMix64::new()).map_err(|_| Bad)?),
		"wyrand" => js(serde_json::to_string(&Wyrand::new()).map_err(|_| Bad)?),
		"chacha8" => crate::chacha::dump(&ChaCha8::new())?,
		"chacha12" => crate::chacha::dump(&ChaCha12::new())?,
		"chacha20" => crate::chacha::dump(&ChaCha20::new())?,
		_ => return Err(Bad),
	})
}
